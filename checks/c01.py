#!/usr/bin/env python3-vt
"""C01: at-least-once delivery -- an accepted message is never lost."""
import sys, os
sys.path.insert(0, os.path.dirname(os.path.dirname(os.path.abspath(__file__))))
from gosym.runner import Check, load_program
from gosym.step import run_transition
import checks.transitions as tr
import checks.oracles as O
from checks.c03 import COMMON_ASSUMPTIONS


def main():
    chk = Check('C01')
    prog = load_program()
    chk.repo_hash = prog.repo_hash
    chk.assumptions += COMMON_ASSUMPTIONS
    for T in tr.all_transitions():
        fs = [O.c01_frame]
        if T.kind == 'publish':
            fs = [O.c01_publish]
        if T.kind == 'pull':
            fs.append(O.c01_pull_offers)
        fs.append(O.inv_preserved)      # the pre-state invariant of all one-step obligations is inductive
        T.oracle = (lambda fs, T: lambda ex, S: [x for f in fs for x in f(ex, S, T)])(fs, T)
        run_transition(chk, prog, T, max_paths=300000)
    chk.bounds = {'tables': 'per obligation (see per_obligation.bounds)', 'steps': 1, 'pre-state': 'arbitrary rows satisfying the representation invariant'}
    chk.finish()


if __name__ == '__main__':
    main()
