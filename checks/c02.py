#!/usr/bin/env python3-vt
"""C02: only rightful, intact messages are delivered; subscriptions are independent."""
import sys, os
sys.path.insert(0, os.path.dirname(os.path.dirname(os.path.abspath(__file__))))
from gosym.runner import Check, load_program
from gosym.step import run_transition
import checks.transitions as tr
import checks.oracles as O
from checks.c03 import COMMON_ASSUMPTIONS


def main():
    chk = Check('C02')
    prog = load_program()
    chk.repo_hash = prog.repo_hash
    chk.assumptions += COMMON_ASSUMPTIONS
    for T in tr.all_transitions():
        if T.kind not in ('ack', 'nack', 'delay', 'seek', 'pull', 'delete-sub', 'publish'):
            continue
        fs = [O.c02_independence]
        if T.kind == 'pull':
            fs.append(O.c02_pull_scoping)
        if T.kind == 'publish':
            fs = [O.c01_publish]     # published content is stored verbatim (payload, attributes, ordering key, id)
        T.oracle = (lambda fs, T: lambda ex, S: [x for f in fs for x in f(ex, S, T)])(fs, T)
        run_transition(chk, prog, T, max_paths=300000)
    chk.bounds = {'tables': 'per obligation (see per_obligation.bounds)', 'steps': 1}
    chk.assumptions.append('payloads are opaque values with identity and a symbolic length: byte-level JSON normalisation by the database is outside the claim')
    chk.finish()


if __name__ == '__main__':
    main()
