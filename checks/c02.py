#!/usr/bin/env python3-vt
"""C02: only rightful, intact messages are delivered; subscriptions are independent."""
import sys, os
sys.path.insert(0, os.path.dirname(os.path.dirname(os.path.abspath(__file__))))
from gosym.runner import Check, load_program
from gosym.step import run_transition
import checks.transitions as tr
import checks.oracles as O
from checks.c03 import COMMON_ASSUMPTIONS


def grpc_mappings(chk, prog, only_chain=False):
    """the gRPC layer: a pulled delivery is rendered field by field; a publish batch answers with the stored ids in request order"""
    import z3
    from gosym.core import And, Or, Not, Implies, UUIDStr, OpaqueBytes, SymMap
    from gosym import reldb, world, stdlib
    from gosym.world import A, val_eq
    from checks.handlers import list_handlers, call_handler, PB, SVC

    def h1(ex, ob):
        DEL = A + 'SubscriptionMessageDelivery'
        attrs = reldb.sym_value(ex, 'map', 'attrs')
        payload = reldb.sym_value(ex, 'bytes', 'payload')
        has_key = ex.choose(2) == 1
        key = z3.String('order_key')
        pub = z3.Int('published_at')
        ex.assume(z3.And(pub >= 0, pub < 4 * 10**18))
        na = z3.Int('num_attempts')
        ex.assume(z3.And(na >= 1, na < 2**31))
        d = ex.new_struct(DEL, ID=ex.fresh_uuid('delid'), MessageID=ex.fresh_uuid('msgid'), PublishedAt=pub, NumAttempts=na,
                          OrderKey=(ex.new_ptr(key) if has_key else None), Payload=payload, Attributes=attrs)
        r = ex.call_named(SVC + 'entDeliveryToGrpc', [ex.new_ptr(d)])
        msg = ex.getf(r, 'Message')
        ack, mid = ex.getf(r, 'AckId'), ex.getf(msg, 'MessageId')
        ob.verify(ex, 'ack-id-is-the-delivery-id', isinstance(ack, UUIDStr) and ex.eq(ack.v, ex.getf(d, 'ID')))
        ob.verify(ex, 'message-id-is-the-published-id', isinstance(mid, UUIDStr) and ex.eq(mid.v, ex.getf(d, 'MessageID')))
        ob.verify(ex, 'payload-and-attributes-verbatim', ex.getf(msg, 'Data') is payload and ex.getf(msg, 'Attributes') is attrs)
        ob.verify(ex, 'ordering-key', ex.eq(ex.getf(msg, 'OrderingKey'), key if has_key else ''))
        pt = ex.getf(msg, 'PublishTime')
        ob.verify(ex, 'publish-time', And(ex.eq(ex.getf(pt, 'Seconds') * 10**9 + ex.getf(pt, 'Nanos'), pub), ex.getf(pt, 'Nanos') >= 0, ex.getf(pt, 'Nanos') < 10**9))
        ob.verify(ex, 'delivery-attempt', ex.eq(ex.getf(r, 'DeliveryAttempt'), na))
    if not only_chain:
        chk.run('grpc:pull-response-mapping', prog, h1, bounds={'delivery': 'fully symbolic'}, setup=world.setup)

    hp = [x for x in list_handlers(prog) if x['method'] == 'Publish'][0]

    def h2(ex, ob):
        db = reldb.sym_db(ex, prog, {'Topic': 1, 'Subscription': 1, 'Message': 0, 'Delivery': 0}, exists=True)
        db.t['Topic'][0].v['name'] = 'projects/p/topics/r0'
        ex.assume(And(db.t['Topic'][0].isnull('deleted_at'), db.t['Subscription'][0].isnull('deleted_at'), db.t['Subscription'][0].isnull('filter'),
                      db.t['Subscription'][0].v['topic_id'] == db.t['Topic'][0].v['id']))
        n = 1 + ex.choose(2)
        msgs, reqm = [], []
        for i in range(n):
            data = OpaqueBytes(z3.Int('data%d' % i), z3.Int('len%d' % i))
            ex.assume(data.len >= 1)
            attrs = reldb.sym_value(ex, 'map', 'attrs%d' % i)
            key = z3.String('key%d' % i)
            reqm.append((data, attrs, key))
            msgs.append(ex.new_ptr(ex.new_struct(PB + 'PubsubMessage', Data=data, Attributes=attrs, OrderingKey=key)))
        req = ex.new_ptr(ex.new_struct(PB + 'PublishRequest', Topic='projects/p/topics/r0', Messages=ex.mkslice(msgs)))
        resp, err, code = call_handler(ex, db, hp, req)
        ob.verify(ex, 'publish-accepted', err is None)
        if err is not None:
            return
        ids = ex.getf(resp, 'MessageIds').items()
        rows = db.t['Message']
        ob.verify(ex, 'one-id-and-one-row-per-message', len(ids) == n and len(rows) == n)
        for i in range(min(n, len(rows), len(ids))):
            data, attrs, key = reqm[i]
            ob.verify(ex, 'response-id-in-request-order[%d]' % i, isinstance(ids[i], UUIDStr) and ex.eq(ids[i].v, rows[i].v['id']))
            ob.verify(ex, 'stored-verbatim[%d]' % i, And(val_eq(ex, rows[i].v['payload'], data), val_eq(ex, rows[i].v['attributes'], attrs),
                                                          Or(And(ex.eq(key, ''), rows[i].isnull('order_key')), And(Not(rows[i].isnull('order_key')), ex.eq(rows[i].v['order_key'], key)))))
            cnt = sum([z3.If(And(d.exists, ex.eq(d.v['message_id'], rows[i].v['id']), ex.eq(d.v['subscription_id'], db.t['Subscription'][0].v['id'])), 1, 0) for d in db.t['Delivery']])
            ob.verify(ex, 'one-delivery-for-the-subscription[%d]' % i, cnt == 1)
    if not only_chain:
        chk.run('grpc:publish-batch-fidelity', prog, h2, bounds={'batch': '1..2 messages'}, setup=world.setup, max_paths=50000)

    hu = [x for x in list_handlers(prog) if x['method'] == 'UpdateSubscription'][0]
    FM = 'google.golang.org/protobuf/types/known/fieldmaskpb.FieldMask'
    from gosym.world import F_filter_valid, F_matches

    def h3(ex, ob):
        """a filter change takes effect for every later publish (publish, change the filter, publish again)"""
        db = reldb.sym_db(ex, prog, {'Topic': 1, 'Subscription': 1, 'Message': 0, 'Delivery': 0}, exists=True)
        t, s = db.t['Topic'][0], db.t['Subscription'][0]
        t.v['name'] = 'projects/p/topics/r0'
        s.v['name'] = 'projects/p/subscriptions/r0'
        ex.assume(And(t.isnull('deleted_at'), s.isnull('deleted_at'), s.v['topic_id'] == t.v['id'], s.isnull('dead_letter_topic_id')))
        db.snap0 = db.snapshot()
        newf = z3.String('new_filter')
        ex.assume(Or(newf == '', F_filter_valid()(newf)))
        from gosym.world import filter_axioms, filter_vocab_pref
        from gosym import replay
        from checks.handlers import req_to_json

        def publish(tag):
            attrs = reldb.sym_value(ex, 'map', 'attrs_' + tag)
            m = ex.new_ptr(ex.new_struct(PB + 'PubsubMessage', Data=OpaqueBytes(z3.Int('data_' + tag), 3), Attributes=attrs, OrderingKey=''))
            req = ex.new_ptr(ex.new_struct(PB + 'PublishRequest', Topic='projects/p/topics/r0', Messages=ex.mkslice([m])))
            resp, err, code = call_handler(ex, db, hp, req)
            return attrs, err
        a1, e1 = publish('first')
        if e1 is not None:
            raise __import__('gosym.core', fromlist=['PathAbort']).PathAbort('first publish failed')
        sub = ex.new_ptr(ex.new_struct(PB + 'Subscription', Name='projects/p/subscriptions/r0', Filter=newf))
        req = ex.new_ptr(ex.new_struct(PB + 'UpdateSubscriptionRequest', Subscription=sub, UpdateMask=ex.new_ptr(ex.new_struct(FM, Paths=ex.mkslice(['filter'])))))
        r, e2, c2 = call_handler(ex, db, hu, req)
        if e2 is not None:
            raise __import__('gosym.core', fromlist=['PathAbort']).PathAbort('update rejected')
        n_before = len(db.t['Delivery'])
        a2, e3 = publish('second')
        for ax in filter_axioms([s.v['filter'], newf], [a1, a2]):
            ex.assume(ax)
        pre_rows = {'Topic': [t], 'Subscription': [db.snap0['Subscription'][0]]} if hasattr(db, 'snap0') else None

        def rp(m, desc):
            pref = filter_vocab_pref([db.snap0['Subscription'][0].v['filter'], newf])
            if ex.solver.check(*pref) == z3.sat:
                pass
            rows = replay.rows_from_model(m, db.schema, {'Topic': db.snap0['Topic'], 'Subscription': db.snap0['Subscription']}, ('k',))
            ops = [{'op': 'grpc', 'service': 'publisher', 'method': 'Publish', 'request': {'topic': 'projects/p/topics/r0', 'messages': [{'data': 'ImEi', 'attributes': replay.conc_map(m, a1, ('k',))}]}},
                   {'op': 'grpc', 'service': 'subscriber', 'method': 'UpdateSubscription', 'request': {'subscription': {'name': 'projects/p/subscriptions/r0', 'filter': replay.mval(m, newf)}, 'updateMask': 'filter'}},
                   {'op': 'dump'},
                   {'op': 'grpc', 'service': 'publisher', 'method': 'Publish', 'request': {'topic': 'projects/p/topics/r0', 'messages': [{'data': 'ImIi', 'attributes': replay.conc_map(m, a2, ('k',))}]}}]
            scn = {'base_now': '2000000000000000000', 'rows': rows, 'ops': ops}
            out = replay.run_scenarios([scn])[0]
            path = replay.save_scenario('C02', 'chain-filter-change', scn, desc)
            if 'error' in out:
                raise RuntimeError(out['error'][-400:])
            before = len((out['results'][2].get('state') or {}).get('Delivery') or [])
            after = len(out['post'].get('Delivery') or [])
            nf = replay.mval(m, newf)
            attrs2 = replay.conc_map(m, a2, ('k',))
            real_want = True if nf == '' else (('k' in attrs2) if nf == 'attributes:k' else ('k' not in attrs2) if nf == 'NOT attributes:k' else None)
            if real_want is None or any(r.get('code') not in (None, 'OK') for r in out['results'] if r.get('op') == 'grpc'):
                return False, path
            return ((after - before == 1) != real_want), path
        ob.verify(ex, 'second-publish-accepted', e3 is None)
        if e3 is not None:
            return
        delivered = len(db.t['Delivery']) - n_before
        want = Or(ex.eq(newf, ''), F_matches()(newf, a2.has, a2.val))
        ex.env['small_model'] = filter_vocab_pref([db.snap0['Subscription'][0].v['filter'], newf])
        ob.verify(ex, 'later-publish-routed-by-the-current-filter', ex.eq(delivered == 1, want), replay=rp, describe=
                  lambda m: {'new_filter': str(m.eval(newf, model_completion=True)), 'old_filter_null': str(m.eval(__import__('gosym.core', fromlist=['zbool']).zbool(s.isnull('filter')), model_completion=True))})
    chk.run('chain:publish,update-filter,publish', prog, h3, bounds={'steps': 3, 'filters': 'arbitrary old and new filter (parser verdict and matching uninterpreted)'},
            setup=world.setup, max_paths=50000)


def main():
    chk = Check('C02')
    prog = load_program()
    chk.repo_hash = prog.repo_hash
    chk.assumptions += COMMON_ASSUMPTIONS
    import checks.htransitions as ht
    for T in tr.all_transitions() + [ht.PullH(), ht.AckH()]:
        if T.kind not in ('ack', 'nack', 'delay', 'seek', 'pull', 'delete-sub', 'publish'):
            continue
        fs = [O.c02_independence]
        if T.kind == 'pull':
            fs.append(O.c02_pull_scoping)
        if T.kind == 'publish':
            fs = [O.c01_publish]     # published content is stored verbatim (payload, attributes, ordering key, id)
        T.oracle = (lambda fs, T: lambda ex, S: [x for f in fs for x in f(ex, S, T)])(fs, T)
        run_transition(chk, prog, T, max_paths=300000)
    grpc_mappings(chk, prog)
    chk.bounds = {'tables': 'per obligation (see per_obligation.bounds)', 'steps': 1}
    chk.assumptions.append('payloads are opaque values with identity and a symbolic length: byte-level JSON normalisation by the database is outside the claim')
    chk.finish()


if __name__ == '__main__':
    main()
