#!/usr/bin/env python3-vt
"""C03: acknowledgement is final and idempotent."""
import sys, os
sys.path.insert(0, os.path.dirname(os.path.dirname(os.path.abspath(__file__))))
import z3
from gosym.core import *
from gosym.runner import Check, load_program
from gosym import reldb, world
from gosym.world import *


def main():
    chk = Check('C03')
    prog = load_program()
    chk.repo_hash = prog.repo_hash
    sizes = {'Topic': 1, 'Subscription': 2, 'Message': 2, 'Delivery': 3}
    chk.bounds = {'tables': sizes, 'id list': '0..3 arbitrary ids'}

    def ack_contract(ex, ob):
        db = reldb.sym_db(ex, prog, sizes)
        n = ex.choose(4)
        ids = sym_uuid_list(ex, 'ackid', n)
        pre = db.snapshot()
        act, tx, err = run_action(ex, db, A + 'NewAckDeliveries', [ex.mkslice(ids)], '(*' + A + 'AckDeliveries).Execute')
        post = db.t
        nows = stdlib.clock(ex)['nows']
        d = lambda m: {'ids': [conc(m, i) for i in ids], 'pre': model_values(m, pre)}
        ob.verify(ex, 'ack-succeeds', err is None, d)
        for i, p in enumerate(pre['Delivery']):
            q = post['Delivery'][i]
            hit = And(p.exists, isin(ex, p.v['id'], ids), p.isnull('completed_at'))
            ob.verify(ex, 'acked-row-completed[%d]' % i,
                      Implies(hit, And(q.exists, Not(q.isnull('completed_at')), Or(*[q.v['completed_at'] == t for t in nows]))), d)
            ob.verify(ex, 'only-completed_at-changes[%d]' % i, row_same(ex, p, q, except_cols=('completed_at',)), d)
            ob.verify(ex, 'other-rows-untouched[%d]' % i, Implies(Not(hit), row_same(ex, p, q)), d)
        for e in ('Topic', 'Subscription', 'Message', 'Snapshot'):
            ob.verify(ex, 'table-untouched:' + e, table_same(ex, pre[e], post[e]), d)
        ob.verify(ex, 'no-new-deliveries', len(post['Delivery']) == len(pre['Delivery']), d)
    chk.run('ack-contract', prog, ack_contract, bounds=sizes, setup=world.setup)
    chk.finish()


if __name__ == '__main__':
    main()
