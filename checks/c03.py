#!/usr/bin/env python3-vt
"""C03: acknowledgement is final and idempotent."""
import sys, os
sys.path.insert(0, os.path.dirname(os.path.dirname(os.path.abspath(__file__))))
from gosym.runner import Check, load_program
from gosym.step import run_transition
import checks.transitions as tr
import checks.oracles as O


def main():
    chk = Check('C03')
    prog = load_program()
    chk.repo_hash = prog.repo_hash
    chk.assumptions += COMMON_ASSUMPTIONS
    import checks.htransitions as ht
    for T in tr.all_transitions() + [ht.AckH(), ht.ModAckH()]:
        if T.kind in ('create-topic', 'create-sub', 'create-snapshot', 'delete-topic'):
            continue     # do not touch deliveries at all (covered by C02 independence)
        fs = [O.c03_finality]
        if T.kind == 'ack':
            fs.append(O.c03_ack_contract)
        if T.kind in ('nack', 'delay'):
            fs.append(O.c03_late_nack_modack)
        T.oracle = (lambda fs, T: lambda ex, S: [x for f in fs for x in f(ex, S, T)])(fs, T)
        run_transition(chk, prog, T, max_paths=300000)
    from checks.c11 import reader_applies_every_ack
    reader_applies_every_ack(chk, prog)      # the streaming ack path (reader closure of MessageStreamer.Go)
    chk.bounds = {'tables': 'per obligation (see per_obligation.bounds)', 'steps': 1, 'pre-state': 'arbitrary rows satisfying the representation invariant'}
    chk.finish()


COMMON_ASSUMPTIONS = [
    'reldb: bounded symbolic model of the SQL store and the generated ent builders (see DESIGN.md section 4); validated per run by replaying a reachability witness of every obligation on the real build (SQLite)',
    'pre-state = arbitrary table rows satisfying the representation invariant (unique ids, resolving foreign keys, live <=> deleted_at IS NULL, attempts >= 0, predecessor on same subscription)',
    'time.Now() = fresh non-decreasing symbolic instants; uuid.New() = fresh distinct ids',
    'NextDelayFor replaced by its contract (0 <= nominal <= max+2ns, 0 <= fuzz < 1s, deterministic); the contract is established on the real function by C04',
    'filter parsing/evaluation = uninterpreted predicates filter_valid(str), filter_matches(str, attrs) (connected to the evaluator by C07)',
    'logging and metrics have no modelled effect',
]

if __name__ == '__main__':
    main()
