#!/usr/bin/env python3-vt
"""C04: redelivery lease -- exclusive until the backoff deadline, then redelivered."""
import sys, os
sys.path.insert(0, os.path.dirname(os.path.dirname(os.path.abspath(__file__))))
from fractions import Fraction
import z3
from gosym.core import *
from gosym.runner import Check, load_program
from gosym import reldb, world, stdlib, fpmodel
from gosym.world import *
from checks.tcheck import run_property
import checks.oracles as O

SEC = 10**9


def backoff_function(chk, prog):
    """the real NextDelayFor (floats through the standard error model, math.Pow from the installed Go runtime)"""
    nmax = 320 if chk.thorough else 64
    ns = list(range(0, nmax + 1))
    tab = fpmodel.go_pow_table(1.1, ns)
    # the table itself against exact rationals (concrete check, relative error of the runtime's Pow)
    worst = 0
    for n in ns:
        exact = Fraction(11, 10) ** n
        got = Fraction(tab[(1.1, float(n))])
        worst = max(worst, abs(got - exact) / exact)
    chk.bounds['math.Pow table'] = 'n = 0..%d from the installed Go runtime; max relative deviation from 11^n/10^n: %.3g' % (nmax, float(worst))
    POWTOL = Fraction(1, 10**13)
    pow_ok = worst <= POWTOL

    def harness(ex, ob):
        ex.env['fp_precise'] = True
        ex.env['pow_table'] = tab
        n = ns[ex.choose(len(ns))]
        cfg = ex.choose(4)     # which of min/max are configured
        sub = ex.zero(reldb.ENT + '.Subscription')
        sid = ex.fresh_uuid('subid')
        ex.setf(sub, 'ID', sid)
        mn = z3.Int('min_backoff')
        mx = z3.Int('max_backoff')
        # configured values: anything an int64 duration may hold (<=0 means "use the default"), up to a year
        YEAR = 365 * 24 * 3600 * SEC
        ex.assume(z3.And(mn >= -YEAR, mn <= YEAR, mx >= -YEAR, mx <= YEAR))
        if cfg & 1:
            ex.setf(sub, 'MinBackoff', ex.new_ptr(mn))
        if cfg & 2:
            ex.setf(sub, 'MaxBackoff', ex.new_ptr(mx))
        emin = z3.If(mn > 0, mn, MIN_DEFAULT) if cfg & 1 else z3.IntVal(MIN_DEFAULT)
        emax = z3.If(mx > 0, mx, MAX_DEFAULT) if cfg & 2 else z3.IntVal(MAX_DEFAULT)
        nominal, fuzzed = ex.call_named(A + 'NextDelayFor', [ex.new_ptr(sub), n])
        exact_pow = Fraction(11, 10) ** n
        ref_unc = z3.ToReal(emin) * z3.RealVal(exact_pow)           # min * 1.1^n   (ns, exact)
        ref = z3.If(ref_unc > z3.ToReal(emax), z3.ToReal(emax), ref_unc)
        tol = ref * z3.RealVal(Fraction(1, 10**12)) + 2
        d = lambda m: {'attempts': n, 'min_backoff': (str(m.eval(mn)) if cfg & 1 else None), 'max_backoff': (str(m.eval(mx)) if cfg & 2 else None),
                       'nominal': str(m.eval(zint(nominal))), 'fuzzed': str(m.eval(zint(fuzzed)))}
        ob.verify(ex, 'nominal=min(max,min*1.1^n)', And(z3.ToReal(zint(nominal)) >= ref - tol, z3.ToReal(zint(nominal)) <= ref + tol), d)
        ob.verify(ex, 'jitter-in-[0,1s)', And(zint(fuzzed) - zint(nominal) >= 0, zint(fuzzed) - zint(nominal) < SEC), d)
        ob.verify(ex, 'no-jitter-below-half-second', Implies(ref + tol < SEC // 2, ex.eq(fuzzed, nominal)), d)
        # the contract the transition checks rely on
        ob.verify(ex, 'contract: 0<=nominal<=max(1+1e-12)+2ns', And(zint(nominal) >= 0, zint(nominal) <= emax + emax / 10**12 + 2), d)
    ob = chk.run('backoff-function', prog, harness, bounds={'attempts': '0..%d' % nmax, 'min/max backoff': 'absent or any duration in [-1y, 1y] (<= 0 = default)'},
                 setup=lambda xp: world.setup(xp, backoff_contract=False), max_paths=100000)
    if not pow_ok:
        ob.inconclusive.append('runtime math.Pow deviates more than 1e-13 from the exact power')
    chk.assumptions += ['floating point: standard model (each operation exact*(1+d), |d|<=2^-53) over reals; no overflow/underflow for durations within +-1 year',
                        'math.Pow(1.1,n) taken from the installed Go runtime and compared concretely with 11^n/10^n',
                        'crc32 is an uninterpreted function into [0,2^32)']


def two_pullers(chk, prog):
    """two pull transactions on one subscription whose SELECTs may overlap (PostgreSQL READ COMMITTED row-lock contract)"""
    G = '(*' + A + 'GetSubscriptionMessages).'
    sizes = {'Topic': 1, 'Subscription': 1, 'Message': 2, 'Delivery': 2}

    def harness(ex, ob):
        db = reldb.sym_db(ex, prog, sizes, exists=True)
        db.dialect = 'postgres'
        s = db.t['Subscription'][0]
        ex.assume(And(s.isnull('deleted_at'), s.isnull('max_delivery_attempts')))
        overlap = ex.choose(2) == 1
        sigma0 = db.snapshot()

        def mk(tag):
            mm = z3.Int('max_messages_' + tag)
            ex.assume(z3.And(mm >= 1, mm <= 3))
            p = ex.new_struct(A + 'GetSubscriptionMessagesParams', Name='', ID=ex.new_ptr(s.v['id']), MaxMessages=mm, MaxBytes=10**6, MaxWait=0)
            return ex.call_named(A + 'NewGetSubscriptionMessages', [p])
        ctx = stdlib.new_context(ex)
        info = {}

        def run_query(act, tx, who):
            sub, err = ex.call_named(G + 'verifySub', [act, ctx, tx])
            if err is not None:
                raise PathAbort('verifySub')
            k0 = len(stdlib.clock(ex)['nows'])
            ds, err = ex.call_named(G + 'queryAndLockDeliveriesOnce', [act, ctx, tx, sub])
            if err is not None:
                raise PathAbort('query')
            info[who + '_now'] = stdlib.clock(ex)['nows'][k0]
            return sub, ds

        # ---- A selects (and locks), then applies its results
        actA, actB = mk('A'), mk('B')
        txA = reldb.begin_tx(ex, db)
        lockinfo = {}

        def view_A(ex_, b):
            if b.e == 'Delivery' and b.bkind == 'Query':
                lockinfo['A'] = (b.lock, any(isinstance(o, tuple) and o[1] == 'WithLockAction' and 'SKIP LOCKED' in str(o[2]) for o in getattr(b, 'lock_opts', [])))
            return None
        ex.env['select_view'] = view_A
        subA, dsA = run_query(actA, txA, 'A')
        ex.env['select_view'] = None
        idsA = [ex.getf(d, 'ID') for d in dsA.items()]
        err = ex.call_named(G + 'applyResults', [actA, ctx, txA, subA, dsA])
        if err is not None:
            raise PathAbort('applyA')
        postA = db.snapshot()
        # ---- B selects: after A committed, or overlapping A's open transaction
        txB = reldb.begin_tx(ex, db)

        def view_B(ex_, b):
            if not (b.e == 'Delivery' and b.bkind == 'Query'):
                return None
            skip = any(isinstance(o, tuple) and o[1] == 'WithLockAction' and 'SKIP LOCKED' in str(o[2]) for o in getattr(b, 'lock_opts', []))
            lockinfo['B'] = (b.lock, skip)
            if not overlap:
                return None
            a_lock = lockinfo.get('A', (False, False))[0]
            view = {e: list(rows) for e, rows in db.t.items()}
            rows = []
            for i, r0 in enumerate(sigma0['Delivery']):
                locked = isin(ex, r0.v['id'], idsA)
                cur = postA['Delivery'][i]
                if a_lock and b.lock and skip:
                    r = r0.copy()
                    r.exists = And(r0.exists, Not(locked))          # SKIP LOCKED: rows locked by A are invisible
                elif a_lock and b.lock:
                    r = cur.copy()                                   # B blocks on A's row locks and re-evaluates on the new version
                    for c in r.v:
                        r.v[c] = Ite(locked, cur.v[c], r0.v[c])
                        if c in r.null:
                            r.null[c] = Ite(locked, cur.null[c], r0.null[c])
                else:
                    r = r0.copy()                                    # no lock taken: B reads the pre-A row versions
                rows.append(r)
            view['Delivery'] = rows
            return view
        ex.env['select_view'] = view_B
        subB, dsB = run_query(actB, txB, 'B')
        ex.env['select_view'] = None
        idsB = [ex.getf(d, 'ID') for d in dsB.items()]
        d = lambda m: {'overlap': overlap, 'locks': {k: list(v) for k, v in lockinfo.items()}, 'A': [world.conc(m, i) for i in idsA], 'B': [world.conc(m, i) for i in idsB]}
        for ia in idsA:
            for ib in idsB:
                # the lease A gave: attempt_at' of that row after A
                lease = []
                for i, r in enumerate(postA['Delivery']):
                    lease.append(And(ex.eq(r.v['id'], ia), info['B_now'] >= r.v['attempt_at']))
                ob.verify(ex, 'no-double-delivery-within-lease', Implies(ex.eq(ia, ib), Or(*lease)), d)
        ob.reached(ex)
    chk.run('two-concurrent-pullers', prog, harness, bounds=dict(sizes, transactions=2, overlap='B selects before or after A commits'),
            setup=world.setup, max_paths=100000)
    chk.assumptions += ['PostgreSQL READ COMMITTED contract: SELECT .. FOR UPDATE locks returned rows; SKIP LOCKED omits rows locked by an open transaction; '
                        'a blocking locker re-evaluates the predicate on the committed version; a plain SELECT reads the last committed version',
                        'SQLite: transactions are serial (immediate), so overlap is impossible there']


def sel(T):
    if T.name.startswith('grpc:') and T.name not in ('grpc:Pull', 'grpc:ModifyAckDeadline'):
        return []
    if T.kind in ('pull', 'delay'):
        return [O.c04_lease]
    if T.kind == 'nack':
        return [O.c06_deadletter]
    return []


if __name__ == '__main__':
    chk = Check('C04')
    prog = load_program()
    backoff_function(chk, prog)
    two_pullers(chk, prog)
    run_property(chk, prog, sel)
    chk.finish()
