#!/usr/bin/env python3-vt
"""C05: ordered delivery -- same-key messages are never overtaken.
Bounded model checking from the empty subscription: the real publish / pull / ack / nack / seek code is executed
symbolically step after step on the relational store model; ordering keys, clock advances and pull sizes are symbolic."""
import sys, os, json
sys.path.insert(0, os.path.dirname(os.path.dirname(os.path.abspath(__file__))))
import z3
from gosym.core import *
from gosym.runner import Check, load_program, VERIF
from gosym import reldb, world, stdlib, replay
from gosym.world import *
import checks.transitions as tr

KF = os.path.join(VERIF, 'known_findings.json')


def fixed_row(ex, db, e, vals, nulls=()):
    r = reldb.sym_row(ex, db, e, len(db.t[e]), exists=True, prefix='b')
    for k, v in vals.items():
        r.v[k] = v
        if k in r.null:
            r.null[k] = False
    for k in nulls:
        r.null[k] = True
    return r


def world0(ex, prog, with_dl=False):
    """one live topic with one live ordered subscription, no messages yet"""
    db = reldb.DB(ex.xp.schema)
    t = fixed_row(ex, db, 'Topic', {'name': 'projects/p/topics/t', 'live': True}, nulls=('deleted_at',))
    s = fixed_row(ex, db, 'Subscription', {'name': 'projects/p/subscriptions/s', 'live': True, 'ordered_delivery': True, 'topic_id': t.v['id'],
                                          'delivery_delay': 0},
                  nulls=('deleted_at', 'filter', 'push_endpoint', 'max_delivery_attempts', 'dead_letter_topic_id', 'min_backoff', 'max_backoff'))
    ex.assume(z3.And(s.v['message_ttl'] >= 60 * 10**9, s.v['message_ttl'] < 2**50, s.v['ttl'] >= 60 * 10**9, s.v['ttl'] < 2**50))
    reldb.assume_inv(ex, db)
    return db, t, s


class Trace:
    def __init__(self, ex, db, sub):
        self.ex, self.db, self.sub = ex, db, sub
        self.ops = []          # replay ops
        self.pulls = []        # (op index, results, pre snapshot, nows)
        self.nows_at = []
        self.gaps = []

    def mark(self):
        return len(stdlib.clock(self.ex)['nows'])

    def step_gap(self, first_now_idx):
        """between two API calls the clock either barely moves or moves by at least a minute (replayable, no knife-edge)"""
        nows = stdlib.clock(self.ex)['nows']
        if first_now_idx < len(nows):
            # one API call takes at most a millisecond of clock time
            self.ex.assume(nows[-1] - nows[first_now_idx] <= 10**6)
        if first_now_idx > 0 and first_now_idx < len(nows):
            g = nows[first_now_idx] - nows[first_now_idx - 1]
            self.ex.assume(z3.And(g >= 1, z3.Or(g <= 10**6, g >= 60 * 10**9)))     # distinct instants for distinct calls (ties are outside the claims)
            self.gaps.append((len(self.ops), g))

    def publish(self, key, tag):
        ex = self.ex
        k0 = self.mark()
        payload = OpaqueBytes(0, 4)
        p = tr.params(ex, 'PublishMessageParams', TopicName='projects/p/topics/t', TopicID=None, Payload=payload, Attributes=None, OrderKey=key)
        act, tx, err = run_action(ex, self.db, A + 'NewPublishMessage', [p], '(*' + A + 'PublishMessage).Execute')
        self.step_gap(k0)
        self.ops.append({'op': 'publish', 'topic_name': 'projects/p/topics/t', 'payload': '"%s"' % tag, 'order_key': key})
        return err

    def pull(self, maxm):
        ex = self.ex
        k0 = self.mark()
        pre = self.db.snapshot()
        p = tr.params(ex, 'GetSubscriptionMessagesParams', Name='projects/p/subscriptions/s', ID=None, MaxMessages=maxm, MaxBytes=10**6,
                      MaxBytesStrict=False, MaxWait=50 * 10**6)
        act, tx, err = run_action(ex, self.db, A + 'NewGetSubscriptionMessages', [p], '(*' + A + 'GetSubscriptionMessages).Execute')
        self.step_gap(k0)
        rp = action_results(ex, act)
        res = []
        if rp is not None:
            for dp in ex.getf(rp, 'Deliveries').items():
                res.append({'id': ex.getf(dp, 'ID'), 'message_id': ex.getf(dp, 'MessageID'), 'published_at': ex.getf(dp, 'PublishedAt')})
        nows = stdlib.clock(ex)['nows'][k0:]
        self.ops.append({'op': 'dump'})
        self.ops.append({'op': 'pull', 'name': 'projects/p/subscriptions/s', 'max_messages': maxm, 'max_bytes': 10**6, 'max_wait': str(50 * 10**6)})
        self.pulls.append((len(self.ops) - 1, res, pre, nows))
        return err, res

    def ack(self, pull_idx, ks):
        ex = self.ex
        k0 = self.mark()
        opi, res, _, _ = self.pulls[pull_idx]
        ids = [res[k]['id'] for k in ks]
        act, tx, err = run_action(ex, self.db, A + 'NewAckDeliveries', [ex.mkslice(ids)], '(*' + A + 'AckDeliveries).Execute')
        self.step_gap(k0)
        self.ops.append({'op': 'ack', 'ids': ['$%d.%d' % (opi, k) for k in ks]})
        return err

    def nack(self, pull_idx, ks):
        ex = self.ex
        k0 = self.mark()
        opi, res, _, _ = self.pulls[pull_idx]
        ids = [res[k]['id'] for k in ks]
        p = tr.params(ex, 'DelayDeliveriesParams', IDs=ex.mkslice(ids), Delay=0)
        act, tx, err = run_action(ex, self.db, A + 'NewDelayDeliveries', [p], '(*' + A + 'DelayDeliveries).Execute')
        self.step_gap(k0)
        self.ops.append({'op': 'delay', 'ids': ['$%d.%d' % (opi, k) for k in ks], 'delay': '0'})
        return err

    def seek0(self):
        """seek the subscription back to before everything (revives every retained acknowledged message)"""
        ex = self.ex
        k0 = self.mark()
        p = tr.params(ex, 'SeekSubscriptionToTimeParams', Name='projects/p/subscriptions/s', ID=None, Time=reldb.TMIN)
        act, tx, err = run_action(ex, self.db, A + 'NewSeekSubscriptionToTime', [p], '(*' + A + 'SeekSubscriptionToTime).Execute')
        self.step_gap(k0)
        self.ops.append({'op': 'seek_time', 'name': 'projects/p/subscriptions/s', 'time': str(reldb.TMIN)})
        return err

    def prune_completed(self):
        ex = self.ex
        k0 = self.mark()
        p = tr.params(ex, 'PruneCommonParams', MinAge=0, MaxDelete=100)
        act, tx, err = run_action(ex, self.db, A + 'NewPruneCompletedDeliveries', [p], '(*' + A + 'PruneCompletedDeliveries).Execute')
        self.step_gap(k0)
        self.ops.append({'op': 'prune_completed_deliveries', 'min_age': '0', 'max_delete': 100})
        return err

    def prune_expired(self):
        ex = self.ex
        k0 = self.mark()
        p = tr.params(ex, 'PruneCommonParams', MinAge=0, MaxDelete=100)
        act, tx, err = run_action(ex, self.db, A + 'NewPruneExpiredDeliveries', [p], '(*' + A + 'PruneExpiredDeliveries).Execute')
        self.step_gap(k0)
        self.ops.append({'op': 'prune_expired_deliveries', 'min_age': '0', 'max_delete': 100})
        return err


def overtaken(ex, pre, res_item, now_lo):
    """some earlier-published, same-key, still outstanding delivery exists (in the state before the pull) for this returned delivery"""
    conds = []
    for d in pre['Delivery']:
        for m1 in pre['Message']:
            for m2 in pre['Message']:
                conds.append(And(d.exists, m1.exists, m2.exists, ex.eq(m1.v['id'], d.v['message_id']), ex.eq(m2.v['id'], res_item['message_id']),
                                 Not(ex.eq(d.v['id'], res_item['id'])), Not(m1.isnull('order_key')), Not(m2.isnull('order_key')),
                                 ex.eq(m1.v['order_key'], m2.v['order_key']), m1.v['published_at'] < m2.v['published_at'],
                                 d.isnull('completed_at'), d.v['expires_at'] > now_lo))
    return Or(*conds)


def released_by_expiry(ex, pre, res_item, now_hi):
    """the returned delivery's recorded predecessor is an uncompleted delivery whose retention has run out (that is what made it eligible)"""
    conds = []
    for x in pre['Delivery']:
        for p in pre['Delivery']:
            conds.append(And(x.exists, p.exists, ex.eq(x.v['id'], res_item['id']), Not(x.isnull('not_before_id')), ex.eq(x.v['not_before_id'], p.v['id']),
                             p.isnull('completed_at'), p.v['expires_at'] <= now_hi))
    return Or(*conds)


def publish_batch_chain(chk, prog):
    """one Publish request carrying several messages (the real handler): on an ordered subscription every keyed message of the batch is
    chained behind the latest earlier message of the batch with the same key - batch order is publish order"""
    from checks.handlers import list_handlers, call_handler, PB
    hp = [x for x in list_handlers(prog) if x['method'] == 'Publish'][0]
    n = 4 if chk.thorough else 3

    def harness(ex, ob):
        db, t, s = world0(ex, prog)
        t.v['name'] = 'projects/p/topics/r0'
        pre_rows = {'Topic': list(db.t['Topic']), 'Subscription': list(db.t['Subscription'])}
        keys = [z3.String('bkey%d' % i) for i in range(n)]
        msgs = [ex.new_ptr(ex.new_struct(PB + 'PubsubMessage', Data=OpaqueBytes(i + 1, 3), Attributes=None, OrderingKey=keys[i])) for i in range(n)]
        req = ex.new_ptr(ex.new_struct(PB + 'PublishRequest', Topic='projects/p/topics/r0', Messages=ex.mkslice(msgs)))
        resp, err, code = call_handler(ex, db, hp, req)
        if err is not None:
            raise PathAbort('publish failed')
        nows = stdlib.clock(ex)['nows']
        for a, b in zip(nows, nows[1:]):
            ex.assume(b > a)       # successive clock readings are distinct instants (timestamp ties are outside the claim)
        ex.assume(nows[-1] - nows[0] <= 10**6)     # one call takes at most a millisecond of clock time (nothing of the batch expires meanwhile)
        rows = db.t['Message']
        ob.reached(ex)
        if len(rows) != n:
            ob.verify(ex, 'one-row-per-message', False)
            return
        dl = []
        for i in range(n):
            ds = [d for d in db.t['Delivery'] if simp(ex.eq(d.v['message_id'], rows[i].v['id'])) is True]
            dl.append(ds[0] if len(ds) == 1 else None)
        if any(d is None for d in dl):
            ob.verify(ex, 'one-delivery-per-message', False)
            return

        def describe(m):
            return {'keys': [replay.mval(m, k) for k in keys], 'nows': [replay.mval(m, x) for x in nows],
                    'deliveries': [{c: (None if (d.isnull(c) is not False and replay.mval(m, zbool(d.isnull(c))) is True) else str(replay.mval(m, d.v[c])))
                                    for c in ('id', 'published_at', 'expires_at', 'not_before_id')} for d in dl]}

        def rp(m, desc):
            ks = desc['keys']
            rws = replay.rows_from_model(m, db.schema, pre_rows)
            scn = {'base_now': str(replay.mval(m, nows[0])), 'rows': rws,
                   'ops': [{'op': 'grpc', 'service': 'publisher', 'method': 'Publish',
                            'request': {'topic': 'projects/p/topics/r0', 'messages': [{'data': 'ImEi', 'orderingKey': k} for k in ks]}}]}
            out = replay.run_scenarios([scn])[0]
            path = replay.save_scenario('C05', 'publish-batch-chain', scn, desc)
            if 'error' in out:
                raise RuntimeError(out['error'][-400:])
            r = out['results'][0]
            if r.get('code') not in (None, 'OK'):
                return False, path
            ids = (r.get('response') or {}).get('messageIds') or []
            by_msg = {d['message_id']: d for d in out['post'].get('Delivery') or []}
            if len(ids) != len(ks) or any(i not in by_msg for i in ids):
                return False, path
            bad = False
            for i in range(len(ks)):
                js = [j for j in range(i) if ks[j] == ks[i] and ks[i] != '']
                want = by_msg[ids[js[-1]]]['id'] if js else None
                bad = bad or by_msg[ids[i]].get('not_before_id') != want
            return bad, path
        for i in range(n):
            nb_null, nb = dl[i].isnull('not_before_id'), dl[i].v['not_before_id']
            conds = []
            # the latest earlier same-key message of the batch (none: no predecessor, the subscription was empty)
            for j in range(i):
                later_same = Or(*[ex.eq(keys[k], keys[i]) for k in range(j + 1, i)]) if i - j > 1 else False
                conds.append(Implies(And(Not(ex.eq(keys[i], '')), ex.eq(keys[j], keys[i]), Not(later_same)), And(Not(nb_null), ex.eq(nb, dl[j].v['id']))))
            none = Or(ex.eq(keys[i], ''), And(*[Not(ex.eq(keys[j], keys[i])) for j in range(i)]))
            conds.append(Implies(none, nb_null))
            ob.verify(ex, 'batch-order-is-chain-order[%d]' % i, And(*conds), describe, replay=rp)
    chk.run('grpc:publish-batch-chains', prog, harness, bounds={'batch': '%d messages, symbolic keys' % n, 'pre-state': 'empty ordered subscription'},
            setup=world.setup, max_paths=50000)


TEMPLATES_QUICK = [
    ['pub', 'pub', 'pub', 'pull', 'ack', 'pull'],
    ['pub', 'pub', 'pull', 'nack', 'pull'],
    ['pub', 'pub', 'pull', 'ack', 'prune_completed', 'pull'],
    ['pub', 'pull', 'ack', 'pub', 'seek0', 'pub', 'pull'],
    ['pub', 'pub', 'pull', 'ack', 'pull', 'ack', 'seek0', 'pull'],
]
TEMPLATES_THOROUGH = TEMPLATES_QUICK + [
    ['pub', 'pub', 'pub', 'pull', 'ack', 'pull', 'ack', 'pull'],
    ['pub', 'pub', 'pull', 'nack', 'pull', 'ack', 'pull'],
    ['pub', 'pull', 'pub', 'pub', 'ack', 'pull', 'ack', 'pull'],
    ['pub', 'pull', 'ack', 'pub', 'seek0', 'pub', 'pull', 'ack', 'pull'],
]


def main():
    chk = Check('C05')
    prog = load_program()
    chk.repo_hash = prog.repo_hash
    templates = TEMPLATES_THOROUGH if chk.thorough else TEMPLATES_QUICK
    chk.bounds = {'history': 'from an empty ordered subscription; step templates: ' + '; '.join(' '.join(t) for t in templates),
                  'messages': '<= 3 in flight', 'ordering keys': 'arbitrary strings (symbolic, equalities decided by the solver)',
                  'clock': 'arbitrary advance between steps (<= 1 ms or >= 1 min, no knife-edge instants); <= 1 ms elapses inside one call', 'pull sizes': 'symbolic 1..3',
                  'ack/nack sets': 'every subset of the previous response'}
    chk.assumptions += ['reldb store model (validated by replay)', 'NextDelayFor replaced by its contract (see C04)',
                        'one topic, one ordered subscription without filter or dead-letter policy',
                        'publish timestamps are distinct (ties are outside the claim)']

    for ti, tpl in enumerate(templates):
        def harness(ex, ob, tpl=tpl):
            db, t, s = world0(ex, prog)
            trace = Trace(ex, db, s)
            # counterexamples are asked for without knife-edge instants (every deadline of every delivery at least a second away from
            # every clock reading), so that the real clock's jitter cannot flip a comparison in the replay
            ex.env['small_model'] = [z3.BoolVal(True)]

            def margins(ex_, gap=None, db=db, s=s, trace=trace):
                nows = stdlib.clock(ex_)['nows']
                if gap is None:
                    # first choice: long retention and clock advances of one to two minutes: nothing expires by retention at all
                    out = [s.v['message_ttl'] >= 1800 * 10**9]
                    for _, g in trace.gaps:
                        out.append(z3.Or(g <= 10**6, z3.And(g >= 60 * 10**9, g <= 120 * 10**9)))
                    return out
                # second choice (the violation needs an expiry): every deadline a second away from every clock reading, or exactly a reading
                out = []
                for n in nows:
                    for d in db.t['Delivery']:
                        for c in ('expires_at', 'attempt_at'):
                            if is_sym(d.v[c]) or is_sym(n):
                                out.append(z3.Or(z3.Or(*[d.v[c] == n2 for n2 in nows]), d.v[c] - n >= 10**9, n - d.v[c] >= 10**9))
                return out
            ex.env['replay_margins'] = margins
            keys = []
            npub = 0
            last_pull = None
            for step in tpl:
                if step == 'pub':
                    k = z3.String('key%d' % npub)
                    keys.append(k)
                    err = trace.publish(k, 'm%d' % npub)
                    npub += 1
                    if err is not None:
                        raise PathAbort('publish failed')
                    ms = db.t['Message']
                    if len(ms) >= 2:
                        ex.assume(ms[-1].v['published_at'] > ms[-2].v['published_at'])
                elif step == 'pull':
                    mm = z3.Int('maxm%d' % len(trace.pulls))
                    ex.assume(z3.And(mm >= 1, mm <= 3))
                    err, res = trace.pull(mm)
                    if err is not None:
                        raise PathAbort('pull failed')
                    last_pull = len(trace.pulls) - 1
                    opi, res, pre, nows = trace.pulls[-1]
                    for k, r in enumerate(res):
                        rel = released_by_expiry(ex, pre, r, nows[-1])

                        def describe(m, trace=trace, keys=keys, rel=rel):
                            return {'template': tpl, 'keys': [replay.mval(m, x) for x in keys], 'ops': concretize_ops(m, trace, keys),
                                    'released_by_expired_predecessor': bool(z3.is_true(m.eval(zbool(rel), model_completion=True)))}

                        def rp(m, desc, trace=trace, keys=keys, pull_no=len(trace.pulls) - 1):
                            return replay_trace(chk, ob, m, trace, keys, db, pull_no)
                        ob.verify(ex, 'no-overtaking[pull %d, result %d]' % (len(trace.pulls) - 1, k), Not(overtaken(ex, pre, r, nows[-1])),
                                  describe, replay=rp, known=known_pred)
                elif step in ('ack', 'nack'):
                    _, res, _, _ = trace.pulls[last_pull]
                    n = len(res)
                    sub = ex.choose(2 ** n)
                    ks = [k for k in range(n) if (sub >> k) & 1]
                    err = trace.ack(last_pull, ks) if step == 'ack' else trace.nack(last_pull, ks)
                    if err is not None:
                        raise PathAbort('ack failed')
                elif step == 'seek0':
                    err = trace.seek0()
                    if err is not None:
                        raise PathAbort('seek failed')
                elif step == 'prune_completed':
                    trace.prune_completed()
                elif step == 'prune_expired':
                    trace.prune_expired()
            ob.reached(ex)
        chk.run('bmc[%s]' % ' '.join(tpl), prog, harness, bounds={'template': tpl}, setup=world.setup, max_paths=200000)
    publish_batch_chain(chk, prog)
    # inductive lemma (arbitrary pre-state): the predecessor chosen at publish time
    import checks.oracles as O
    from gosym.step import run_transition
    T = tr.Publish()
    T.name = 'lemma:publish-chains-behind-latest-same-key'
    T.sizes = {'Topic': 1, 'Subscription': 1, 'Message': 2, 'Delivery': 2} if not chk.thorough else {'Topic': 1, 'Subscription': 2, 'Message': 3, 'Delivery': 3}
    T.sizes_thorough = None
    T.oracle = lambda ex, S: O.c05_predecessor(ex, S, T)
    run_transition(chk, prog, T, max_paths=200000)
    chk.finish()


def known_pred(pred, m, desc):
    """known-finding predicates in the harness vocabulary"""
    if pred == 'unkeyed-or-other-key-message-between-same-key-messages':
        ks = desc.get('keys', [])
        # A(K) ... X(other key or none) ... B(K): the overtaken pair is separated by a message with a different key
        for i in range(len(ks)):
            for j in range(i + 2, len(ks)):
                if ks[i] != '' and ks[i] == ks[j] and any(ks[x] != ks[i] for x in range(i + 1, j)):
                    return True
        return False
    if pred == 'released-by-expired-predecessor':
        # the overtaking delivery became eligible because its recorded predecessor expired unacknowledged, while an even earlier same-key
        # message (with a later expiry: revived by a seek) is still outstanding - eligibility looks one link back only
        return bool(desc.get('released_by_expired_predecessor')) and 'seek0' in (desc.get('template') or [])
    return False


def concretize_ops(m, trace, keys):
    ops = []
    gaps = {i: replay.mval(m, g) for i, g in trace.gaps}
    newidx = {}
    for i, op in enumerate(trace.ops):
        if i in gaps and gaps[i] >= 60 * 10**9:
            ops.append({'op': 'shift', 'delta': str(gaps[i])})
        newidx[i] = len(ops)
        o = {}
        for k, v in op.items():
            o[k] = replay.mval(m, v) if is_sym(v) else v
        ops.append(o)
    # "$<op index>.<k>" references (ack / nack of the k-th delivery of an earlier pull) follow the inserted clock shifts
    for o in ops:
        if isinstance(o.get('ids'), list):
            o['ids'] = ['$%d.%s' % (newidx[int(x[1:].split('.')[0])], x.split('.')[1]) if isinstance(x, str) and x.startswith('$') else x for x in o['ids']]
    return ops


def replay_trace(chk, ob, m, trace, keys, db, pull_no):
    schema = db.schema
    rows = {'Topic': [], 'Subscription': []}
    init = {'Topic': db.t['Topic'][:1], 'Subscription': db.t['Subscription'][:1]}
    rows = replay.rows_from_model(m, schema, init)
    # initial rows must be replayable at "now": shift their timestamps relative to the first now
    nows = stdlib.clock(trace.ex)['nows']
    base = replay.mval(m, nows[0])
    ops = concretize_ops(m, trace, keys)
    scn = {'base_now': str(base), 'rows': rows, 'ops': ops}
    out = replay.run_scenarios([scn])[0]
    path = replay.save_scenario(chk.prop, ob.name + '-pull%d' % pull_no, scn, {'template': ob.bounds.get('template')})
    if 'error' in out:
        raise RuntimeError(out['error'][-500:])
    # evaluate the property on the real run: every pull against the dump taken just before it
    res = out['results']
    violated = False
    for i, r in enumerate(res):
        if r.get('op') != 'pull' or not r.get('result'):
            continue
        state = res[i - 1].get('state') if i > 0 and res[i - 1].get('op') == 'dump' else None
        if state is None:
            continue
        msgs = {x['id']: x for x in state.get('Message') or []}
        t_pull = int(r['t0'])
        for d in r['result']['deliveries']:
            k = d.get('order_key')
            if not k:
                continue
            for o in state.get('Delivery') or []:
                mo = msgs.get(o['message_id'])
                if o['id'] != d['id'] and mo and mo.get('order_key') == k and int(mo['published_at']) < int(d['published_at']) \
                        and o['completed_at'] is None and int(o['expires_at']) > t_pull:
                    violated = True
    return violated, path


if __name__ == '__main__':
    main()
