#!/usr/bin/env python3-vt
"""C06: dead-lettering -- bounded attempts, forwarded exactly once."""
import sys, os
sys.path.insert(0, os.path.dirname(os.path.dirname(os.path.abspath(__file__))))
from gosym.runner import Check, load_program
from checks.tcheck import run_property
import checks.oracles as O

if __name__ == '__main__':
    chk = Check('C06')
    prog = load_program()
    run_property(chk, prog, lambda T: [O.c06_deadletter, O.c03_finality] if T.kind in ('nack', 'pull', 'sweep') else [])
    chk.finish()
