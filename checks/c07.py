#!/usr/bin/env python3-vt
"""C07: subscription filters mean what the filter language says.
Symbolically executes the real filter evaluator (filter/evaluate.go) on every AST shape the grammar
can produce up to a size bound, with symbolic names/values/negations/operators and a symbolic
attribute map, and compares with an independent reference semantics."""
import sys, os, itertools
sys.path.insert(0, os.path.dirname(os.path.dirname(os.path.abspath(__file__))))
import z3
from gosym.core import *
from gosym.runner import Check, load_program

F = 'go.6river.tech/mmmbbb/filter.'

# ---- shapes: ('cond', term, 'and'|'or'|None, [terms]); ('term', basic|cond); leaves 'has' | 'val' | 'pred'
LEAVES = ['has', 'val', 'pred']
ABSENT_NE = False   # convention for `!=` on an absent attribute; main() accepts either (globally consistent) convention


def gen_terms(n, depth):
    """terms with exactly n leaves"""
    if n == 1:
        for l in ['L']:
            yield ('term', l)
            if depth > 0:
                yield ('term', ('cond', ('term', l), None, []))    # "(leaf)"
    elif depth > 0:
        for c in gen_conds(n, depth - 1, lists_only=True):
            yield ('term', c)


def splits(n, k):
    """compositions of n into k positive parts"""
    if k == 1:
        yield (n,)
        return
    for a in range(1, n - k + 2):
        for rest in splits(n - a, k - 1):
            yield (a,) + rest


def gen_conds(n, depth, lists_only=False):
    if not lists_only:
        for t in gen_terms(n, depth):
            yield ('cond', t, None, [])
    for k in range(2, n + 1):
        for parts in splits(n, k):
            for ts in itertools.product(*[list(gen_terms(p, depth)) for p in parts]):
                for op in ('and', 'or'):
                    yield ('cond', ts[0], op, list(ts[1:]))


class Build:
    """builds the Go AST in the symbolic heap and the reference formula side by side"""

    def __init__(self, ex, attrs):
        self.ex = ex
        self.attrs = attrs
        self.n = 0
        self.syms = []

    def s(self, nm, sort='str'):
        self.n += 1
        v = z3.Const('%s%d' % (nm, self.n), z3.StringSort() if sort == 'str' else z3.BoolSort())
        self.syms.append(v)
        return v

    def leaf(self, kind):
        """a BasicExpression whose kind is symbolic ('L') or fixed: exactly one of Has/Value/Predicate is non-nil"""
        ex = self.ex
        name = self.s('name')
        has = z3.Select(self.attrs.has, name)
        val = z3.Select(self.attrs.val, name)
        self.n += 1
        k = z3.Int('kind%d' % self.n)
        if kind == 'L':
            ex.assume(z3.And(k >= 0, k <= 2))
        else:
            ex.assume(k == LEAVES.index(kind))
        op = self.s('op')
        ex.assume(z3.Or(op == '=', op == '!='))
        v = self.s('value')
        h0 = ex.new_ptr(ex.new_struct(F + 'HasAttribute', Name=name))
        h1 = ex.new_ptr(ex.new_struct(F + 'HasAttributeValue', Name=name, Op=op, Value=v))
        h2 = ex.new_ptr(ex.new_struct(F + 'HasAttributePredicate', Predicate='hasPrefix', Name=name, Value=v))
        h0.nilc, h1.nilc, h2.nilc = k != 0, k != 1, k != 2
        b = ex.new_struct(F + 'BasicExpression', Has=h0, Value=h1, Predicate=h2)
        # documented semantics; "!=" on an absent attribute follows the global convention ABSENT_NE
        r1 = z3.If(op == '=', z3.And(has, val == v), z3.If(has, val != v, z3.BoolVal(ABSENT_NE)))
        ref = z3.If(k == 0, has, z3.If(k == 1, r1, z3.And(has, z3.PrefixOf(v, val))))
        return ex.new_ptr(b), ref

    def term(self, sh):
        ex = self.ex
        neg = self.s('not', 'bool')
        if sh[1] in LEAVES or sh[1] == 'L':
            b, ref = self.leaf(sh[1])
            t = ex.new_struct(F + 'Term', Not=neg, Basic=b)
        else:
            c, ref = self.cond(sh[1])
            t = ex.new_struct(F + 'Term', Not=neg, Sub=c)
        return ex.new_ptr(t), z3.Xor(ref, neg)

    def cond(self, sh):
        ex = self.ex
        t, ref = self.term(sh[1])
        c = ex.new_struct(F + 'Condition', Term=t)
        if sh[2]:
            ts = [self.term(x) for x in sh[3]]
            sl = ex.mkslice([p for p, _ in ts])
            if sh[2] == 'and':
                ex.setf(c, 'And', sl)
                ref = z3.And(ref, *[r for _, r in ts])
            else:
                ex.setf(c, 'Or', sl)
                ref = z3.Or(ref, *[r for _, r in ts])
        return ex.new_ptr(c), ref


def show(sh):
    if sh[0] == 'term':
        return sh[1] if isinstance(sh[1], str) else '(' + show(sh[1]) + ')'
    s = show(sh[1])
    if sh[2]:
        s += ''.join(' %s %s' % (sh[2].upper(), show(t)) for t in sh[3])
    return s


def sym_attrs():
    return SymMap(z3.Array('attr_has', z3.StringSort(), z3.BoolSort()), z3.Array('attr_val', z3.StringSort(), z3.StringSort()))


MERGE = ['(*' + F + t + ').Evaluate' for t in ('Condition', 'Term', 'BasicExpression', 'HasAttribute', 'HasAttributeValue', 'HasAttributePredicate')] + [F + 'andTerms', F + 'orTerms']


def main():
    chk = Check('C07')
    prog = load_program()
    chk.repo_hash = prog.repo_hash
    maxleaves = 4 if chk.thorough else 3
    depth = 2
    chk.bounds = {'max_leaves': maxleaves, 'nesting': depth, 'attribute_map': 'unbounded (z3 arrays String->Bool/String)',
                  'strings': 'arbitrary z3 strings (unbounded length, any code points of the solver alphabet)'}
    chk.assumptions += [
        'map[string]string modelled as z3 arrays (has,val); map lookup = Select',
        'strings.HasPrefix = z3 PrefixOf; errors.New/fmt.Errorf are opaque non-nil errors',
        'reference semantics written independently: ":" presence, "=" equal, "!=" differs when present (absent: unconstrained), hasPrefix, NOT = xor, AND/OR lists',
        'parser (participle) precedence/AST construction is outside the claim',
    ]
    shapes = []
    for n in range(1, maxleaves + 1):
        shapes += list(gen_conds(n, depth))
    # de-dup
    seen = set()
    ushapes = []
    for s in shapes:
        k = repr(s)
        if k not in seen:
            seen.add(k)
            ushapes.append(s)
    shapes = ushapes
    chk.bounds['shapes'] = len(shapes)

    def mk(shapes_batch, label):
        def harness(ex, ob):
            i = ex.choose(len(shapes_batch))
            sh = shapes_batch[i]
            attrs = sym_attrs()
            b = Build(ex, attrs)
            c, ref = b.cond(sh)
            res = ex.call_named('(*' + F + 'Condition).Evaluate', [c, attrs])
            r, err = res

            def describe(m):
                return {'shape': show(sh), 'model': {str(d): str(m[d]) for d in m.decls()}}
            ob.verify(ex, 'err-nil:' + show(sh), err is None, describe)
            if err is None:
                ob.verify(ex, 'equals-reference:' + show(sh), simp(zbool(r) == ref), describe)
        return harness

    B = 40
    for k in range(0, len(shapes), B):
        batch = shapes[k:k + B]
        chk.run('evaluator-vs-reference[%d..%d]' % (k, k + len(batch) - 1), prog, mk(batch, k),
                bounds={'shapes': [show(s) for s in batch[:3]] + ['...']}, max_paths=200000, merge=MERGE, parallel=False)

    # boolean laws on the real evaluator: compare two ASTs built over the same symbolic leaves
    def law_harness(ex, ob):
        attrs = sym_attrs()
        kinds = LEAVES
        ka = kinds[ex.choose(3)]
        kb = kinds[ex.choose(3)]
        law = ex.choose(5)
        bld = Build(ex, attrs)

        def leaf_term(kind, neg, share):
            # leaves must share symbols between both sides: build once, reuse pointer
            return share

        def mkleaf(kind):
            b, ref = bld.leaf(kind)
            return b

        def term(neg, basic=None, sub=None):
            t = ex.new_struct(F + 'Term', Not=neg)
            if basic is not None:
                ex.setf(t, 'Basic', basic)
            if sub is not None:
                ex.setf(t, 'Sub', sub)
            return ex.new_ptr(t)

        def cond(t, op=None, ts=()):
            c = ex.new_struct(F + 'Condition', Term=t)
            if op == 'and':
                ex.setf(c, 'And', ex.mkslice(list(ts)))
            elif op == 'or':
                ex.setf(c, 'Or', ex.mkslice(list(ts)))
            return ex.new_ptr(c)
        A, Bb = mkleaf(ka), mkleaf(kb)
        na, nb = z3.Bool('na'), z3.Bool('nb')
        names = ['double-negation', 'de-morgan-and', 'de-morgan-or', 'commutativity', 'parenthesisation']
        if law == 0:    # NOT (NOT a) == a
            lhs = cond(term(True, sub=cond(term(True, sub=cond(term(na, basic=A))))))
            rhs = cond(term(na, basic=A))
        elif law == 1:  # NOT (a AND b) == (NOT a) OR (NOT b)
            lhs = cond(term(True, sub=cond(term(na, basic=A), 'and', [term(nb, basic=Bb)])))
            rhs = cond(term(True, sub=cond(term(na, basic=A))), 'or', [term(True, sub=cond(term(nb, basic=Bb)))])
        elif law == 2:  # NOT (a OR b) == (NOT a) AND (NOT b)
            lhs = cond(term(True, sub=cond(term(na, basic=A), 'or', [term(nb, basic=Bb)])))
            rhs = cond(term(True, sub=cond(term(na, basic=A))), 'and', [term(True, sub=cond(term(nb, basic=Bb)))])
        elif law == 3:
            op = ['and', 'or'][ex.choose(2)]
            lhs = cond(term(na, basic=A), op, [term(nb, basic=Bb)])
            rhs = cond(term(nb, basic=Bb), op, [term(na, basic=A)])
        else:
            lhs = cond(term(False, sub=cond(term(na, basic=A))))
            rhs = cond(term(na, basic=A))
        r1, e1 = ex.call_named('(*' + F + 'Condition).Evaluate', [lhs, attrs])
        r2, e2 = ex.call_named('(*' + F + 'Condition).Evaluate', [rhs, attrs])
        # determinism: evaluate lhs again
        r3, e3 = ex.call_named('(*' + F + 'Condition).Evaluate', [lhs, attrs])
        d = lambda m: {'law': names[law], 'leaves': [ka, kb], 'model': {str(x): str(m[x]) for x in m.decls()}}
        ob.verify(ex, 'total:' + names[law], And(e1 is None, e2 is None), d)
        ob.verify(ex, 'law:' + names[law], simp(zbool(r1) == zbool(r2)), d)
        ob.verify(ex, 'deterministic:' + names[law], simp(zbool(r1) == zbool(r3)), d)
    chk.run('boolean-laws', prog, law_harness, bounds={'laws': 5, 'leaf kinds': 9}, merge=MERGE, parallel=False)
    # routing: publish delivers to a filtered subscription iff the stored filter matches (the parser verdict / match predicate are
    # uninterpreted here and pinned to the real semantics on a two-filter vocabulary; the evaluator itself is decided above)
    import checks.transitions as tr
    import checks.oracles as O
    from gosym.step import run_transition
    T = tr.Publish()
    T.name = 'routing:publish-delivers-iff-filter-matches'
    T.oracle = lambda ex, S: O.c01_publish(ex, S, T)
    run_transition(chk, prog, T, max_paths=200000)
    # the second place filters are applied: a dead-lettered message is offered to the dead-letter topic's subscriptions by their filters
    T2 = tr.DeadLetterSweep()
    T2.name = 'routing:dead-letter-forward-iff-filter-matches'
    T2.oracle = lambda ex, S: [x for x in O.c06_deadletter(ex, S, T2) if x[0].startswith('forwarded-exactly-once')]
    run_transition(chk, prog, T2, max_paths=200000)
    # a filter change takes effect for later publishes (hidden parsed-filter state would break this)
    import checks.c02 as c02
    c02.grpc_mappings(chk, prog, only_chain=True)
    chk.samples = [{'shape': show(s), 'symbolic': 'names, values, NOT flags, operator, attribute map'} for s in shapes[:3] + shapes[-2:]]
    chk.finish()


if __name__ == '__main__':
    main()
