#!/usr/bin/env python3-vt
"""C08 (partial): rejected filters are never stored; the filter printer only leaves identifiers unquoted and emits the
token sequence the grammar prescribes.  NOT decided here: that the participle parser accepts exactly the documented language
(reflection-driven parser and text/scanner are outside the reach of the SSA encoder) -- see DESIGN.md."""
import sys, os
sys.path.insert(0, os.path.dirname(os.path.dirname(os.path.abspath(__file__))))
import z3
from gosym.core import *
from gosym.runner import Check, load_program
from gosym import reldb, world, stdlib, replay
from gosym.world import *
from gosym.stdlib import intr
from checks.tcheck import run_property
import checks.transitions as tr
import checks.c07 as c07

F = 'go.6river.tech/mmmbbb/filter.'


class AsciiStr:
    """a Go string of concrete length whose bytes are symbolic ASCII codes"""

    def __init__(self, codes):
        self.codes = codes

    def go_range(self, ex):
        return [(i, c) for i, c in enumerate(self.codes)]

    def go_eq(self, ex, other):
        if isinstance(other, str):
            bs = other.encode('utf-8')
            if len(bs) != len(self.codes):
                return False
            return And(*[c == b for c, b in zip(self.codes, bs)])
        if isinstance(other, AsciiStr):
            return len(self.codes) == len(other.codes) and And(*[a == b for a, b in zip(self.codes, other.codes)])
        raise Unsupported('AsciiStr == %r' % (other,))


    def go_rconcat(self, ex, prefix):
        return CatStr([prefix, self])

    def go_concat(self, ex, suffix):
        return CatStr([self, suffix])


class CatStr:
    """concatenation of concrete strings and AsciiStr parts"""

    def __init__(self, parts):
        self.parts = parts

    def go_concat(self, ex, suffix):
        return CatStr(self.parts + (suffix.parts if isinstance(suffix, CatStr) else [suffix]))

    def go_rconcat(self, ex, prefix):
        return CatStr((prefix.parts if isinstance(prefix, CatStr) else [prefix]) + self.parts)


def intr_contains_any(ex, args, name):
    s_, chars = args
    if isinstance(s_, AsciiStr) and isinstance(chars, str):
        return Or(*[c == ord(ch) for c in s_.codes for ch in chars]) if s_.codes and chars else False
    if isinstance(s_, str) and isinstance(chars, str):
        return any(ch in s_ for ch in chars)
    raise Unsupported('strings.ContainsAny on %r' % (s_,))


def letter(c):
    return z3.Or(z3.And(c >= 65, c <= 90), z3.And(c >= 97, c <= 122))


def digit(c):
    return z3.And(c >= 48, c <= 57)


def intr_isletter(ex, args, name):
    c = args[0]
    return simp(letter(c)) if is_sym(c) else (65 <= c <= 90 or 97 <= c <= 122)


def intr_isdigit(ex, args, name):
    c = args[0]
    return simp(digit(c)) if is_sym(c) else 48 <= c <= 57


def intr_quote(ex, args, name):
    return Opaque('quoted', inner=args[0])


INTR = {'unicode.IsLetter': intr_isletter, 'unicode.IsDigit': intr_isdigit, 'strconv.Quote': intr_quote, 'strings.ContainsAny': intr_contains_any,
        'strings.ContainsRune': lambda ex, a, n: intr_contains_any(ex, [a[0], chr(a[1])], n)}


def printer_name_lemma(chk, prog):
    MAXLEN = 8 if chk.thorough else 6

    def harness(ex, ob):
        n = ex.choose(MAXLEN + 1)
        codes = [z3.Int('ch%d' % i) for i in range(n)]
        for c in codes:
            ex.assume(z3.And(c >= 1, c <= 127))
        name = AsciiStr(codes)
        out = ex.call_named(F + 'formatAttrName', [name])
        unquoted = out is name
        ident = And(n >= 1, *[Or(c == 95, letter(c), And(digit(c), i > 0)) for i, c in enumerate(codes)])

        def d(m):
            return {'name': ''.join(chr(m.eval(c, model_completion=True).as_long()) for c in codes), 'printed_unquoted': unquoted}

        def rp(m, desc):
            src = 'attributes:' + '"%s"' % desc['name'].replace('\\', '\\\\').replace('"', '\\"')
            scn = {'base_now': '2000000000000000000', 'rows': {}, 'ops': [{'op': 'filter_roundtrip', 'src': src}]}
            out_ = replay.run_scenarios([scn])[0]
            path = replay.save_scenario('C08', 'printer-name-%d' % len(desc['name']), scn, desc)
            if 'error' in out_:
                raise RuntimeError(out_['error'][-400:])
            r = out_['results'][0]
            return (r.get('parse_err') is None and r.get('reparse_err') is not None), path
        ob.verify(ex, 'unquoted-name-is-a-nonempty-identifier', Implies(unquoted, ident), d, replay=rp, known=lambda pred, m, desc: desc['name'] == '')
        ob.verify(ex, 'identifier-is-left-unquoted', Implies(ident, unquoted), d)
    chk.run('printer:attribute-names', prog, harness, bounds={'name length': '0..%d' % MAXLEN, 'alphabet': 'ASCII 1..127 (symbolic)'}, intr=INTR)


def printer_value_lemma(chk, prog):
    """the value / prefix of a leaf is printed as a string literal that lexes back to the same value: either through strconv.Quote
    (trusted) or as a raw "..." whose content needs no escape"""
    MAXLEN = 3 if chk.thorough else 2
    NODES = [('HasAttributeValue', dict(Name='k', Op='=')), ('HasAttributePredicate', dict(Predicate='hasPrefix', Name='k'))]

    def golit(v):
        out = '"'
        for ch in v:
            o = ord(ch)
            out += '\\"' if ch == '"' else '\\\\' if ch == '\\' else ch if 32 <= o < 127 else '\\x%02x' % o
        return out + '"'

    def harness(ex, ob):
        node, fields = NODES[ex.choose(len(NODES))]
        n = ex.choose(MAXLEN + 1)
        codes = [z3.Int('vc%d' % i) for i in range(n)]
        for c in codes:
            ex.assume(z3.And(c >= 1, c <= 127))
        val = AsciiStr(codes)
        w = Writer()
        e = ex.new_ptr(ex.new_struct(F + node, Value=val, **fields))
        err = ex.call_named('(*' + F + node + ').AsFilter', [e, Iface('writer', w)])
        ob.verify(ex, 'prints-without-error', err is None)
        toks = [t for t in w.out if not isinstance(t, str)]

        def d(m):
            return {'node': node, 'value': ''.join(chr(m.eval(c, model_completion=True).as_long()) for c in codes)}

        def rp(m, desc):
            lit = golit(desc['value'])
            src = ('attributes.k = ' + lit) if desc['node'] == 'HasAttributeValue' else ('hasPrefix(attributes.k, ' + lit + ')')
            scn = {'base_now': '2000000000000000000', 'rows': {}, 'ops': [{'op': 'filter_roundtrip', 'src': src}]}
            out_ = replay.run_scenarios([scn])[0]
            path = replay.save_scenario('C08', 'printer-value-%s' % desc['node'], scn, desc)
            if 'error' in out_:
                raise RuntimeError(out_['error'][-400:])
            r = out_['results'][0]
            return (r.get('parse_err') is None and (r.get('print_err') is not None or r.get('reparse_err') is not None)), path
        if len(toks) != 1:
            raise Unsupported('value printed through %d non-constant writes' % len(toks))
        t = toks[0]
        if isinstance(t, Opaque) and getattr(t, 'inner', None) is val:
            ob.verify(ex, 'value-literal-lexes-back-to-the-value', True)
            return
        if isinstance(t, CatStr) and len(t.parts) == 3 and t.parts[0] == '"' and t.parts[2] == '"' and t.parts[1] is val:
            plain = And(*[z3.And(c != 10, c != 34, c != 92) for c in codes]) if codes else True      # the lexer (text/scanner) takes any other byte raw
            ob.verify(ex, 'value-literal-lexes-back-to-the-value', plain, d, replay=rp)
            return
        raise Unsupported('value printed as %r' % (t,))
    chk.run('printer:values', prog, harness, bounds={'value length': '0..%d' % MAXLEN, 'alphabet': 'ASCII 1..127 (symbolic)', 'nodes': [x for x, _ in NODES]}, intr=INTR)


class Writer(Opaque):
    def __init__(self):
        Opaque.__init__(self, 'writer')
        self.out = []

    def go_invoke(self, ex, method, args):
        if method == 'WriteString':
            self.out.append(args[0])
            return (0, None)
        if method == 'WriteRune':
            self.out.append(chr(args[0]))
            return (1, None)
        raise Unsupported('Writer.' + method)


def flatten(items):
    """merge adjacent concrete strings"""
    out = []
    for x in items:
        if isinstance(x, str) and out and isinstance(out[-1], str):
            out[-1] += x
        elif isinstance(x, str) and x == '':
            continue
        else:
            out.append(x)
    return out


def printer_tokens(chk, prog):
    """AsFilter writes exactly the token sequence the grammar tags prescribe (names/values stay opaque)"""
    shapes = []
    for n in range(1, 4 if chk.thorough else 3):
        shapes += list(c07.gen_conds(n, 2))

    class B:
        def __init__(self, ex):
            self.ex = ex
            self.k = 0

        def nm(self, tag):
            self.k += 1
            return Opaque('str', tag='%s%d' % (tag, self.k))

        def leaf(self, kind):
            ex = self.ex
            name = self.nm('name')
            if kind == 0:
                b = ex.new_struct(F + 'BasicExpression', Has=ex.new_ptr(ex.new_struct(F + 'HasAttribute', Name=name)))
                exp = ['attributes:', ('name', name)]
            elif kind == 1:
                op = ['=', '!='][ex.choose(2)]
                v = self.nm('value')
                b = ex.new_struct(F + 'BasicExpression', Value=ex.new_ptr(ex.new_struct(F + 'HasAttributeValue', Name=name, Op=op, Value=v)))
                exp = ['attributes.', ('name', name), op, ('quote', v)]
            else:
                v = self.nm('value')
                b = ex.new_struct(F + 'BasicExpression', Predicate=ex.new_ptr(ex.new_struct(F + 'HasAttributePredicate', Predicate='hasPrefix', Name=name, Value=v)))
                exp = ['hasPrefix', '(attributes.', ('name', name), ',', ('quote', v), ')']
            return ex.new_ptr(b), exp

        def term(self, sh):
            ex = self.ex
            neg = ex.choose(2) == 1
            if isinstance(sh[1], str):
                b, exp = self.leaf(ex.choose(3))
                t = ex.new_struct(F + 'Term', Not=neg, Basic=b)
            else:
                c, e2 = self.cond(sh[1])
                t = ex.new_struct(F + 'Term', Not=neg, Sub=c)
                exp = ['('] + e2 + [')']
            return ex.new_ptr(t), (['NOT '] if neg else []) + exp

        def cond(self, sh):
            ex = self.ex
            t, exp = self.term(sh[1])
            c = ex.new_struct(F + 'Condition', Term=t)
            if sh[2]:
                ts = [self.term(x) for x in sh[3]]
                ex.setf(c, 'And' if sh[2] == 'and' else 'Or', ex.mkslice([p for p, _ in ts]))
                for _, e2 in ts:
                    exp = exp + [' ' + sh[2].upper() + ' '] + e2
            return ex.new_ptr(c), exp

    def fmt_name(ex, args, name):
        return ('name', args[0])

    def quote(ex, args, name):
        return ('quote', args[0])

    def harness(ex, ob):
        sh = shapes[ex.choose(len(shapes))]
        b = B(ex)
        c, exp = b.cond(sh)
        w = Writer()
        err = ex.call_named('(*' + F + 'Condition).AsFilter', [c, Iface('writer', w)])
        ob.verify(ex, 'prints-without-error:' + c07.show(sh), err is None)
        ob.verify(ex, 'token-sequence-follows-the-grammar:' + c07.show(sh), flatten(w.out) == flatten(exp),
                  lambda m: {'shape': c07.show(sh), 'written': [str(x) for x in flatten(w.out)], 'expected': [str(x) for x in flatten(exp)]})
    chk.run('printer:token-sequence', prog, harness, bounds={'shapes': len(shapes), 'leaves': '<= %d' % (3 if chk.thorough else 2)},
            intr={F + 'formatAttrName': fmt_name, 'strconv.Quote': quote}, max_paths=200000)


def c08_create(ex, S, T):
    out = []
    a = S.args
    flt = a['filter']
    valid = F_filter_valid()(zstr(flt))
    rejected = And(Not(ex.eq(flt, '')), Not(valid))
    out.append(('rejected-filter-is-an-error', Implies(rejected, S.err is not None)))
    ns = S.post['Subscription'][len(S.pre['Subscription']):]
    for n in ns:
        out.append(('stored-filter-is-the-accepted-request-filter', Implies(n.exists, Or(And(ex.eq(flt, ''), n.isnull('filter')),
                                                                                            And(valid, Not(n.isnull('filter')), ex.eq(n.v['filter'], flt))))))
    if S.err is not None:
        out.append(('failed-create-stores-nothing', len(ns) == 0))
    for j, s in enumerate(S.pre['Subscription']):
        out.append(('existing-filters-untouched[%d]' % j, col_eq(ex, s, S.post['Subscription'][j], 'filter')))
    return out


def update_filter(chk, prog):
    """UpdateSubscription with update_mask=[filter]: a filter the parser rejects gives InvalidArgument and is not stored"""
    from checks.handlers import list_handlers, call_handler, PB
    hs = list_handlers(prog)
    h = [x for x in hs if x['method'] == 'UpdateSubscription'][0]

    def harness(ex, ob):
        db = reldb.sym_db(ex, prog, {'Topic': 1, 'Subscription': 1, 'Message': 0, 'Delivery': 0}, exists=True)
        s = db.t['Subscription'][0]
        s.v['name'] = 'projects/p/subscriptions/r0'
        ex.assume(s.isnull('deleted_at'))
        flt = z3.String('newfilter')
        sub = ex.new_ptr(ex.new_struct(PB + 'Subscription', Name='projects/p/subscriptions/r0', Filter=flt, PushConfig=ex.new_ptr(ex.new_struct(PB + 'PushConfig'))))
        FM = 'google.golang.org/protobuf/types/known/fieldmaskpb.FieldMask'
        # the mask names the filter alone, or together with one other path, in either order
        others = [None, 'push_config', 'labels', 'expiration_policy', 'message_retention_duration', 'enable_message_ordering', 'retry_policy', 'dead_letter_policy',
                  'ack_deadline_seconds', 'no_such_field']
        other = others[ex.choose(len(others))]
        paths = ['filter'] if other is None else (['filter', other] if ex.choose(2) == 0 else [other, 'filter'])
        mask = ex.new_ptr(ex.new_struct(FM, Paths=ex.mkslice(paths)))
        req = ex.new_ptr(ex.new_struct(PB + 'UpdateSubscriptionRequest', Subscription=sub, UpdateMask=mask))
        pre = db.snapshot()
        resp, err, code = call_handler(ex, db, h, req)
        valid = F_filter_valid()(zstr(flt))
        q = db.t['Subscription'][0]
        d = lambda m: {'filter': replay.mval(m, flt), 'update_mask': paths, 'parser_accepts': bool(z3.is_true(m.eval(valid, model_completion=True)))}

        def rp(m, desc):
            # the parser verdict is uninterpreted in the encoding: the replay uses a text the real parser certainly rejects / accepts
            text = '' if desc['filter'] == '' else ('attributes:k' if desc['parser_accepts'] else 'attributes:k AND ((')
            rows = replay.rows_from_model(m, db.schema, pre)
            camel = lambda x: ''.join(w.capitalize() if i else w for i, w in enumerate(x.split('_')))
            scn = {'base_now': str(2 * 10**18), 'rows': rows,
                   'ops': [{'op': 'grpc', 'service': 'subscriber', 'method': 'UpdateSubscription', 'timeout_ms': 3000,
                            'request': {'subscription': {'name': 'projects/p/subscriptions/r0', 'filter': text, 'pushConfig': {}}, 'updateMask': ','.join(camel(x) for x in paths)}}]}
            out = replay.run_scenarios([scn])[0]
            path = replay.save_scenario('C08', 'update-filter', scn, dict(desc, replayed_filter=text))
            if 'error' in out:
                raise RuntimeError(out['error'][-400:])
            r = out['results'][0]
            f0 = [x.get('filter') for x in out['pre'].get('Subscription') or []]
            f1 = [x.get('filter') for x in out['post'].get('Subscription') or []]
            ok = r.get('code') in (None, 'OK')
            if text and not desc['parser_accepts']:
                return (ok or f0 != f1), path
            if not ok:
                return (f0 != f1), path
            return (f1 != [text or None]), path
        ob.verify(ex, 'rejected-filter-is-InvalidArgument', Implies(And(Not(ex.eq(flt, '')), Not(valid)), code == 3), d, replay=rp)
        ob.verify(ex, 'rejected-filter-not-stored', Implies(err is not None, col_eq(ex, pre['Subscription'][0], q, 'filter')), d, replay=rp)
        ob.verify(ex, 'accepted-filter-stored-verbatim', Implies(err is None, Or(And(ex.eq(flt, ''), q.isnull('filter')), And(valid, Not(q.isnull('filter')), ex.eq(q.v['filter'], flt)))), d, replay=rp)
    chk.run('update:filter-validated-before-storing', prog, harness, bounds={'filter': 'arbitrary string; parser verdict = uninterpreted predicate', 'update mask': 'filter alone or with one other path, either order; the other request fields are absent'}, setup=world.setup)


if __name__ == '__main__':
    chk = Check('C08')
    prog = load_program()
    chk.repo_hash = prog.repo_hash
    printer_name_lemma(chk, prog)
    printer_value_lemma(chk, prog)
    printer_tokens(chk, prog)
    run_property(chk, prog, lambda T: [c08_create] if T.kind == 'create-sub' else [])
    update_filter(chk, prog)
    chk.assumptions += ['the parser verdict is an uninterpreted predicate filter_valid(string): WHICH strings participle accepts (and that it never crashes or hangs) is NOT decided by this check',
                        'strconv.Quote is opaque; unicode.IsLetter/IsDigit restricted to ASCII; names are ASCII strings of length <= 6 (8 on thorough)',
                        'printer lemma compares the written token sequence with a reference printer derived from the grammar tags']
    chk.finish()
