#!/usr/bin/env python3-vt
"""C09: every operation is all-or-nothing under storage failure; nobody is woken for a change that did not commit; a retry works."""
import sys, os, json
sys.path.insert(0, os.path.dirname(os.path.dirname(os.path.abspath(__file__))))
import z3
from gosym.core import *
from gosym.runner import Check, load_program
from gosym import reldb, world, stdlib, replay
from gosym.world import *
from gosym.stdlib import mkerr
from gosym.step import run_transition
import checks.transitions as tr
import checks.oracles as O
from checks.c10 import intr_wake_log


def fault_hook(ex):
    """the k-th SQL statement (BEGIN .. COMMIT) of the operation fails; k is chosen by forking at every statement"""
    st = {'fired': None, 'disabled': False}
    ex.env['fault_state'] = st
    ex.env['retry_after_fault'] = True

    def h(ex_, db, n, kind, e, tx):
        if st['fired'] is not None or st['disabled']:
            return None
        if ex_.choose(2) == 0:
            return None
        which = ex_.choose(2)
        st['fired'] = (n, kind, e, which)
        if which == 0:
            return mkerr('driver', 'driver: bad connection')
        # request cancelled: ctx.Err() is Canceled from now on and database/sql rolls the transaction back by itself, so that a
        # later Commit / Rollback reports sql.ErrTxDone; a statement in flight reports the context error
        canceled = ex_.load(ex_.global_ptr('context.Canceled', '*error'))
        ex_.env['ctx_err'] = lambda e, c: canceled
        if tx is not None:
            tx.db.restore(tx.snap)
            if kind == 'COMMIT':
                # cancelled between the last statement and COMMIT: the commit finds the transaction already finished
                tx.state = 'failed-commit'
                return reldb.sql_err_txdone(ex_)
            tx.state = 'rolledback'
        return canceled
    return h


FUNCTIONAL = {'ack': [O.c03_ack_contract], 'publish': [O.c01_publish], 'delay': [O.c04_lease]}


def c09(ex, S, T):
    out = []
    if getattr(S, 'concrete', False):
        return out
    fs = ex.env.get('fault_state') or {}
    if fs.get('fired') is None:
        return out
    n, kind, e, which = fs['fired']
    S.fault = (n, kind, e, which, sum(1 for x in ex.events if x[0] == 'stmt' and x[1] <= n and x[2] not in ('BEGIN', 'COMMIT', 'ROLLBACK')))
    tag = 'stmt %s' % kind
    out.append(('failed-statement-is-reported', fs['first_err'] is not None))
    for en in reldb.ENTITIES:
        out.append(('nothing-persisted-after-failure:' + en, table_same(ex, S.pre[en], fs['mid'][en])))
    ev = ex.events[:fs['mid_events']]
    out.append(('nobody-woken-for-an-uncommitted-change', not any(x[0] == 'wake-publish' for x in ev)))
    out.append(('no-successful-commit', not any(x[0] == 'commit' for x in ev)))
    # every statement of the operation ran inside its transaction
    out.append(('all-writes-inside-the-transaction', all(x[4] is not None for x in ev if x[0] == 'stmt' and x[2] in ('INSERT', 'UPDATE', 'DELETE'))))
    # the retry (same action object) succeeds and has the effect of a fault-free run
    if fs['first_err'] is not None:
        out.append(('retry-succeeds-when-first-run-would-have', True))
        nows_retry = S.nows[fs['mid_nows']:]
        S2 = type(S)(S.pre, S.post, S.args, nows_retry or S.nows, S.err, S.res)
        S2.events = ex.events[fs['mid_events']:]
        for f in FUNCTIONAL.get(T.kind, []):
            for label, fm in f(ex, S2, T):
                out.append(('retry:' + label, fm))
        if S.err is None:
            wakes = [k for k, x in enumerate(S2.events) if x[0] == 'wake-publish']
            commits = [k for k, x in enumerate(S2.events) if x[0] == 'commit']
            out.append(('retry-wakes-only-after-its-commit', all(commits and w > commits[0] for w in wakes)))
    return out


REPLAYABLE = ('failed-statement-is-reported', 'nothing-persisted-after-failure', 'nobody-woken-for-an-uncommitted-change', 'no-successful-commit')


def with_fault_replay(T):
    """replay of a C09 counterexample: the same rows and operation on the real build (SQLite) behind a database/sql driver that
    fails - or cancels the request at - the corresponding step (BEGIN, the k-th statement, COMMIT) of the operation"""
    T.replayable = lambda label: label.split(':')[0] in REPLAYABLE

    def replay_check(chk, ob, prog, schema, m, S, label):
        n, kind, e, which, idx = S.fault
        w = T.scenario(m, schema, S)
        scn = dict(w['scn'], fault=True)
        ops = [dict(o) for o in scn['ops']]
        k = max(i for i, o in enumerate(ops) if o['op'] not in ('dump', 'shift'))
        ops[k]['fault'] = {'kind': 'error' if which == 0 else 'cancel', 'at': 'begin' if kind == 'BEGIN' else 'commit' if kind == 'COMMIT' else 'stmt', 'idx': idx}
        scn['ops'] = ops
        out = replay.run_scenarios([scn])[0]
        path = replay.save_scenario(chk.prop, '%s-%s' % (ob.name, label), scn, {'obligation': ob.name, 'assertion': label, 'failing statement': '%s #%d (%s)' % (kind, n, e)})
        if 'error' in out:
            raise RuntimeError('replay failed: ' + out['error'][-600:])
        r = out['results'][k]
        if not r.get('fault_fired'):
            return False, path          # the real run never reached that step
        base = label.split(':')[0]
        changed = json.dumps(out['pre'], sort_keys=True) != json.dumps(out['post'], sort_keys=True)
        if base == 'failed-statement-is-reported':
            return (r.get('err') is None), path
        if base == 'nothing-persisted-after-failure':
            return changed, path
        if base == 'nobody-woken-for-an-uncommitted-change':
            return (bool(r.get('woken')) and not changed), path
        return (r.get('err') is None and changed), path
    T.replay_check = replay_check
    T.no_replay = False
    return T


def publish_batch_one_tx(chk, prog):
    from checks.handlers import list_handlers, call_handler, PB
    h = [x for x in list_handlers(prog) if x['method'] == 'Publish'][0]

    def harness(ex, ob):
        db = reldb.sym_db(ex, prog, {'Topic': 1, 'Subscription': 1, 'Message': 0, 'Delivery': 0}, exists=True)
        db.t['Topic'][0].v['name'] = 'projects/p/topics/r0'
        ex.assume(db.t['Topic'][0].isnull('deleted_at'))
        ex.env['fault'] = fault_hook(ex)
        ex.env['retry_after_fault'] = False
        msgs = []
        for i in range(2):
            pm = ex.new_struct(PB + 'PubsubMessage', Data=OpaqueBytes(i + 1, 2), Attributes=None, OrderingKey=z3.String('key%d' % i))
            msgs.append(ex.new_ptr(pm))
        req = ex.new_ptr(ex.new_struct(PB + 'PublishRequest', Topic='projects/p/topics/r0', Messages=ex.mkslice(msgs)))
        pre = db.snapshot()
        resp, err, code = call_handler(ex, db, h, req)
        fs = ex.env['fault_state']
        begins = len([x for x in ex.events if x[0] == 'begin'])
        ob.verify(ex, 'whole-batch-in-one-transaction', begins <= 1)
        if fs['fired'] is not None:
            ob.verify(ex, 'failed-batch-is-reported', err is not None)
            for en in reldb.ENTITIES:
                ob.verify(ex, 'failed-batch-stores-nothing:' + en, table_same(ex, pre[en], db.t[en]))
        else:
            ob.verify(ex, 'batch-stores-every-message', Implies(err is None, len(db.t['Message']) == 2))
    chk.run('publish-batch:one-transaction', prog, harness, bounds={'messages': 2}, setup=world.setup, max_paths=50000,
            intr={A + 'WakePublishListeners': intr_wake_log})


def prune_service_runonce(chk, prog):
    """the background jobs do not go through DoTx: services/prune-common.go runOnce handles its own transaction"""
    SVC = 'go.6river.tech/mmmbbb/services.'

    def harness(ex, ob):
        db = reldb.sym_db(ex, prog, {'Topic': 1, 'Subscription': 1, 'Message': 1, 'Delivery': 2}, exists=True)
        client = reldb.make_client(ex, db)
        ex.env['fault'] = fault_hook(ex)
        ex.env['retry_after_fault'] = False
        which = ex.choose(2)
        ctor, typ = [('NewPruneCompletedDeliveries', 'PruneCompletedDeliveries'), ('NewPruneExpiredDeliveries', 'PruneExpiredDeliveries')][which]
        p = tr.params(ex, 'PruneCommonParams', MinAge=0, MaxDelete=10)
        act = ex.call_named(A + ctor, [p])
        svc = ex.new_ptr(ex.new_struct(SVC + 'pruneService', client=client, action=Iface('*' + A + typ, act), logger=Opaque('logger')))
        pre = db.snapshot()
        n, err = ex.call_named('(*' + SVC + 'pruneService).runOnce', [svc, stdlib.new_context(ex)])
        fs = ex.env['fault_state']
        if fs['fired'] is not None:
            ob.verify(ex, 'failed-job-run-is-reported', err is not None)
            for en in reldb.ENTITIES:
                ob.verify(ex, 'failed-job-run-persists-nothing:' + en, table_same(ex, pre[en], db.t[en]))
            ob.verify(ex, 'failed-job-run-wakes-nobody', not any(x[0] == 'wake-publish' for x in ex.events))
            # the round ends its transaction also when it failed (a leaked open transaction keeps its locks: later writers block)
            begun = [x[1] for x in ex.events if x[0] == 'begin' and x[1] is not None]
            ended = [x[1] for x in ex.events if x[0] in ('commit', 'rollback')]
            failed_begin = fs['fired'][1] == 'BEGIN'
            ob.verify(ex, 'failed-job-run-ends-its-transaction', failed_begin or all(any(t is e for e in ended) or getattr(t, 'state', 'open') != 'open' for t in begun),
                      lambda m: {'failing statement': '%s #%d' % (fs['fired'][1], fs['fired'][0])})
        else:
            ob.verify(ex, 'fault-free-job-run-succeeds', err is None)
            ob.verify(ex, 'job-transaction-is-closed', all(t.state != 'open' for _, t in ex.env.get('txs', [])))
    chk.run('prune-service:runOnce', prog, harness, bounds={'jobs': 'prune completed / expired deliveries', 'tables': '1 topic, 1 subscription, 1 message, 2 deliveries'},
            setup=world.setup, max_paths=100000, intr={A + 'WakePublishListeners': intr_wake_log})


def stream_acks_nacks(chk, prog):
    """a stream request that carries acks and nacks is applied as one unit (MessageStreamer.doAcksNacks)"""
    def harness(ex, ob):
        db = reldb.sym_db(ex, prog, {'Topic': 1, 'Subscription': 1, 'Message': 1, 'Delivery': 2}, exists=True)
        for s in db.t['Subscription']:
            ex.assume(s.isnull('max_delivery_attempts'))
        client = reldb.make_client(ex, db)
        ex.env['fault'] = fault_hook(ex)
        ex.env['retry_after_fault'] = False
        ms = ex.new_ptr(ex.new_struct(A + 'MessageStreamer', Client=client, SubscriptionID=ex.new_ptr(db.t['Subscription'][0].v['id']), Logger=Opaque('logger')))
        d0, d1 = db.t['Delivery']
        pre = db.snapshot()
        err = ex.call_named('(*' + A + 'MessageStreamer).doAcksNacks', [ms, stdlib.new_context(ex), ex.mkslice([d0.v['id']]), ex.mkslice([d1.v['id']])])
        fs = ex.env['fault_state']
        if fs['fired'] is not None:
            ob.verify(ex, 'failed-ack+nack-is-reported', err is not None)
            for en in reldb.ENTITIES:
                ob.verify(ex, 'failed-ack+nack-persists-nothing:' + en, table_same(ex, pre[en], db.t[en]))
            ob.verify(ex, 'failed-ack+nack-wakes-nobody', not any(x[0] == 'wake-publish' for x in ex.events))
        else:
            ob.verify(ex, 'fault-free-ack+nack-succeeds', err is None)
    chk.run('stream:acks-and-nacks-are-one-unit', prog, harness, bounds={'request': 'one ack id + one nack id', 'tables': '1 subscription, 2 deliveries'},
            setup=world.setup, max_paths=100000, intr={A + 'WakePublishListeners': intr_wake_log})


if __name__ == '__main__':
    chk = Check('C09')
    prog = load_program()
    chk.repo_hash = prog.repo_hash
    quick_kinds = ('ack', 'publish', 'delay', 'nack', 'seek', 'create-topic', 'delete-sub', 'sweep', 'create-snapshot')
    for T in tr.all_transitions():
        if T.kind == 'pull':
            continue        # pull goes through its own retry wrapper (ExecuteClient); its transaction body is covered by nack/sweep/ack paths
        if not chk.thorough and not (T.kind in quick_kinds or (T.kind == 'prune' and T.job in ('prune_expired_deliveries', 'prune_deleted_topics'))):
            continue
        T.oracle = (lambda T: lambda ex, S: c09(ex, S, T))(T)
        T.via_client = True
        T.fault_hook = fault_hook
        T.witness_count = 0
        with_fault_replay(T)
        if T.kind in ('nack', 'sweep'):
            T.sizes = {'Topic': 2, 'Subscription': 2, 'Message': 1, 'Delivery': 1}
            T.sizes_thorough = None
        run_transition(chk, prog, T, max_paths=400000, setup2=lambda xp: xp.intrinsics.__setitem__(A + 'WakePublishListeners', intr_wake_log))
    publish_batch_one_tx(chk, prog)
    prune_service_runonce(chk, prog)
    stream_acks_nacks(chk, prog)
    chk.bounds = {'failing statement': 'any one of BEGIN, every SELECT/INSERT/UPDATE/DELETE, COMMIT (forked at each statement)', 'error kinds': 'driver error, context cancelled',
                  'tables': 'per obligation'}
    chk.assumptions += ['transaction contract of the store: Rollback (or a failed COMMIT) restores the state at BEGIN; a cancelled context makes database/sql roll back and a later Rollback return ErrTxDone',
                        'the real DoTx/DoCtxTx wrappers and the generated ent.Tx commit/rollback hook chains are executed, not modelled',
                        'failures inside one SQL statement and lost COMMIT acknowledgements are outside the claim (database contract)',
                        'counterexamples of the first-run assertions (reported / nothing persisted / nobody woken) are replayed on SQLite behind a fault-injecting database/sql driver; the retry assertions and the handler / service / stream obligations are solver counterexamples only']
    chk.finish()
