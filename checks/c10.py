#!/usr/bin/env python3-vt
"""C10: no lost wake-up -- a waiting pull sees a newly deliverable message promptly."""
import sys, os
sys.path.insert(0, os.path.dirname(os.path.dirname(os.path.abspath(__file__))))
import z3
from gosym.core import *
from gosym.runner import Check, load_program
from gosym import reldb, world, stdlib, replay
from gosym.world import *
from gosym.step import Transition, Step, run_transition
import checks.transitions as tr
import checks.oracles as O


# ---------------------------------------------------------------- layer 1: the waiter registry (real notify.go code)
def registry_contract(chk, prog):
    NIDS = 3

    def harness(ex, ob):
        ids = [ex.fresh_uuid('sub%d' % i) for i in range(NIDS)]
        chans = {}
        # an awaiter that has already fired (its owner cancels it later, as the pull loop does on every iteration): on one subscription or none
        stale_i = ex.choose(NIDS + 1) - 1
        stale = None
        if stale_i >= 0:
            stale = ex.call_named(A + 'PublishAwaiter', [ids[stale_i]])
            ex.call_named(A + 'WakePublishListeners', [False, ex.mkslice([ids[stale_i]])])
        for i, s in enumerate(ids):
            k = ex.choose(3)           # 0, 1 or 2 waiters on this subscription
            chans[i] = [ex.call_named(A + 'PublishAwaiter', [s]) for _ in range(k)]
        # one waiter may have cancelled
        cancelled = None
        allch = [(i, c) for i in chans for c in chans[i]]
        if allch:
            pick = ex.choose(len(allch) + 1)
            if pick < len(allch):
                cancelled = allch[pick]
                ex.call_named(A + 'CancelPublishAwaiter', [ids[cancelled[0]], cancelled[1]])
        if stale is not None:
            ex.call_named(A + 'CancelPublishAwaiter', [ids[stale_i], stale])      # cancelling what already fired must not touch the others
        # wake an arbitrary non-empty sub-list (order matters: all permutations of 1..3 ids)
        import itertools
        lists = [list(p) for n in range(1, NIDS + 1) for p in itertools.permutations(range(NIDS), n)]
        wl = lists[ex.choose(len(lists))]
        ex.call_named(A + 'WakePublishListeners', [False, ex.mkslice([ids[i] for i in wl])])

        def rp(m, desc):
            scn = {'base_now': '2000000000000000000', 'rows': {}, 'ops': [{'op': 'notify_wake', 'waiters': [len(chans[i]) for i in range(NIDS)], 'wake': wl}]}
            out = replay.run_scenarios([scn])[0]
            path = replay.save_scenario('C10', 'registry-wake-%s' % ''.join(map(str, wl)), scn, desc)
            if 'error' in out:
                raise RuntimeError(out['error'][-400:])
            closed = out['results'][0]['closed']
            bad = any((i in wl) and not all(closed[i]) for i in range(NIDS) if closed[i])
            return bad, path
        d = lambda m: {'waiters_per_subscription': {str(i): len(chans[i]) for i in chans}, 'woken_ids_in_order': wl,
                       'cancelled': None if cancelled is None else cancelled[0], 'already fired awaiter cancelled on subscription': stale_i if stale_i >= 0 else None}
        for i in chans:
            for j, c in enumerate(chans[i]):
                if cancelled is not None and cancelled[1] is c:
                    ob.verify(ex, 'cancelled-waiter-not-closed', not c.closed, d)
                    continue
                if i in wl:
                    ob.verify(ex, 'every-waiter-of-every-listed-subscription-woken', c.closed, d, replay=(rp if (cancelled is None and stale is None) else None), known=known_pred)
                else:
                    ob.verify(ex, 'unlisted-subscription-not-woken', not c.closed, d)
        ob.reached(ex)
    chk.run('registry:wake-all-listed', prog, harness, bounds={'subscriptions': NIDS, 'waiters per subscription': '0..2', 'wake list': 'every ordered sub-list'},
            setup=world.setup)

    def harness2(ex, ob):
        # modify-listeners: id+name, id-only, name-only and "any" waiters
        sid = ex.fresh_uuid('sub')
        name = 'projects/p/subscriptions/s'
        c1 = ex.call_named(A + 'SubModifiedAwaiter', [sid, name])
        c2 = ex.call_named(A + 'AnySubModifiedAwaiter', [])
        other = ex.call_named(A + 'SubModifiedAwaiter', [ex.fresh_uuid('other'), 'projects/p/subscriptions/other'])
        ex.call_named(A + 'WakeSubscriptionListeners', [False, sid, name])
        ob.verify(ex, 'modify-waiters-woken', c1.closed and c2.closed)
        ob.verify(ex, 'other-subscription-modify-waiter-not-woken', not other.closed)
    chk.run('registry:modify-listeners', prog, harness2, bounds={'waiters': 3}, setup=world.setup)


def known_pred(pred, m, desc):
    if pred == 'earlier-listed-subscription-has-no-waiter':
        wl = desc['woken_ids_in_order']
        w = desc['waiters_per_subscription']
        canc = desc['cancelled']
        # a listed id with waiters comes after a listed id without any registered wait set
        for k, i in enumerate(wl):
            if w[str(i)] > 0 and any(w[str(j)] == 0 for j in wl[:k]):
                return True
        return False
    return False


# ---------------------------------------------------------------- layer 2: every committing writer wakes what it enables
def intr_wake_log(ex, args, name):
    ids = list(args[1].items()) if isinstance(args[1], Slice) else [args[1]]
    ex.events.append(('wake-publish', args[0], ids))
    return None


def c10_writers(ex, S, T):
    out = []
    concrete = getattr(S, 'concrete', False)
    if concrete:
        # the replay driver registers a publish awaiter per subscription before the operation and reports which were closed
        woken = [replay.uuid_int(x) for x in (S.results[-1].get('woken') or [])]
        if S.err is not None:
            return [('failed-writer-wakes-nobody', not woken)]
    else:
        if S.err is not None:
            out.append(('failed-writer-wakes-nobody', not any(e[0] == 'wake-publish' for e in S.events)))
            return out
        woken = [i for e in S.events if e[0] == 'wake-publish' for i in e[2]]
        commits = [k for k, e in enumerate(S.events) if e[0] == 'commit']
        wakes = [k for k, e in enumerate(S.events) if e[0] == 'wake-publish']
        out.append(('wake-only-after-commit', all(commits and w > commits[0] for w in wakes)))
    tN = S.nows[-1]
    if concrete:
        tN = int(S.results[-1]['t1'])      # on the real run "right after the operation" starts at its measured end (every clock reading lies before it)
    t = z3.Int('probe_t')
    for i, p in enumerate(S.pre['Delivery']):
        q = S.post['Delivery'][i]
        e1 = O.elig_state(ex, S.pre['Delivery'], S.pre['Subscription'], p, t)
        e2 = O.elig_state(ex, S.post['Delivery'], S.post['Subscription'], q, t)
        hyp = And(t >= tN, t <= tN + 10**6, Not(e1), e2)
        if T.kind == 'nack':
            # a stream nack reschedules by the backoff (a retry timer, not an immediate hand-out): only other rows it unblocks count
            hyp = And(hyp, Not(isin(ex, p.v['id'], S.args['ids'])))
        out.append(('newly-deliverable-is-woken[%d]' % i, Implies(hyp, isin(ex, q.v['subscription_id'], woken))))
    for k, n in enumerate(O.new_rows(S, 'Delivery')):
        e2 = O.elig_state(ex, S.post['Delivery'], S.post['Subscription'], n, t)
        out.append(('new-delivery-is-woken[%d]' % k, Implies(And(t >= tN, t <= tN + 10**6, e2), isin(ex, n.v['subscription_id'], woken))))
    return out


def writers(chk, prog):
    for T in tr.all_transitions():
        if T.kind not in ('publish', 'delay', 'ack', 'nack', 'seek', 'sweep', 'prune'):
            continue
        if T.kind == 'prune' and T.job not in ('prune_expired_deliveries', 'prune_completed_deliveries'):
            continue
        T.oracle = (lambda T: lambda ex, S: c10_writers(ex, S, T))(T)
        T.via_client = True
        T.witness_count = 0
        run_transition(chk, prog, T, max_paths=400000, setup2=lambda xp: xp.intrinsics.__setitem__(A + 'WakePublishListeners', intr_wake_log))


# ---------------------------------------------------------------- layer 3: the waiter registers before it queries
def waiter_protocol(chk, prog):
    G = '(*' + A + 'GetSubscriptionMessages).'

    def harness(ex, ob):
        # a live subscription with nothing deliverable: the puller must go to sleep on a registered channel
        db = reldb.sym_db(ex, prog, {'Topic': 1, 'Subscription': 1, 'Message': 0, 'Delivery': 0}, exists=True)
        s = db.t['Subscription'][0]
        ex.assume(s.isnull('deleted_at'))
        client = reldb.make_client(ex, db)
        p = ex.new_struct(A + 'GetSubscriptionMessagesParams', Name='', ID=ex.new_ptr(s.v['id']), MaxMessages=1, MaxBytes=100, MaxWait=0)
        act = ex.call_named(A + 'NewGetSubscriptionMessages', [p])
        waits = []

        def select(ex_, states, blocking, t):
            # record what the waiter is blocked on, then wake it through the publish awaiter twice, then time out
            chans = [c for (d, c, snd) in states]
            regs = [k for k, e in enumerate(ex_.events) if e[0] == 'reg']
            last_begin = max([k for k, e in enumerate(ex_.events) if e[0] == 'begin'] or [-1])
            registered = [e[1] for e in ex_.events if e[0] == 'reg']
            live = None
            for idx, c in enumerate(chans):
                if isinstance(c, Chan) and c in registered and not c.closed and not getattr(c, 'cancelled', False):
                    live = idx
            reg_before_query = live is not None and ex_.events.index(('reg', chans[live])) < last_begin
            waits.append((live is not None, reg_before_query))
            n = len(waits)
            zero = tuple([ex_.zero(x) for x in ex_.prog.types[t]['elems'][2:]])
            if n <= 2 and live is not None:
                chans[live].closed = True          # a writer woke us: loop again
                return (live, False) + zero
            # finally the overall timeout fires
            for idx, c in enumerate(chans):
                if isinstance(c, Chan) and getattr(c, 'name', None) == 'timer' and idx == 0:
                    return (idx, True) + zero
            return (0, True) + zero
        ex.xp.select = select

        def reg(ex_, args, name):
            c = ex_.call_plain(name, args)
            ex_.events.append(('reg', c))
            return c

        def cancel(ex_, args, name):
            if isinstance(args[1], Chan):
                args[1].cancelled = True
            return ex_.call_plain(name, args)
        ex.intrinsics = dict(ex.intrinsics)
        ex.intrinsics[A + 'PublishAwaiter'] = reg
        ex.intrinsics[A + 'CancelPublishAwaiter'] = cancel
        err = ex.call_named(G + 'ExecuteClient', [act, stdlib.new_context(ex), client])
        ob.verify(ex, 'waiter-reached-the-wait-three-times', len(waits) == 3)
        for k, (has, before) in enumerate(waits):
            ob.verify(ex, 'blocked-on-a-live-registered-channel[%d]' % k, has)
            ob.verify(ex, 'registered-before-the-querying-transaction-began[%d]' % k, before)
    chk.run('waiter:register-before-query', prog, harness, bounds={'loop iterations': 3}, setup=world.setup, parallel=False)
    chk.assumptions += ['schedule argument for the waiter: registration precedes the querying transaction in program order and every writer wakes after its commit, '
                        'so for every interleaving either the query sees the commit or the channel registered before it is closed by the wake; '
                        'the check decides the two program-order facts on the real code (3 loop iterations)']


if __name__ == '__main__':
    chk = Check('C10')
    prog = load_program()
    chk.repo_hash = prog.repo_hash
    registry_contract(chk, prog)
    waiter_protocol(chk, prog)
    writers(chk, prog)
    chk.finish()
