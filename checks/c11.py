#!/usr/bin/env python3-vt
"""C11 (partial): streaming pull flow control -- the bound as an inductive step of the real sender closure, the byte-budget
kernel, the flow-control range produced for clients.  NOT decided: the full interleaving space of MessageStreamer.Go (five
goroutines); see DESIGN.md section 5.C11."""
import sys, os
sys.path.insert(0, os.path.dirname(os.path.dirname(os.path.abspath(__file__))))
import z3
from gosym.core import *
from gosym.runner import Check, load_program
from gosym import reldb, world, stdlib
from gosym.world import *
from gosym.stdlib import new_context

G = '(*' + A + 'GetSubscriptionMessages).'
MS = '(*' + A + 'MessageStreamer).'


def mk_sub_and_candidates(ex, prog, n):
    """a live subscription without dead-letter policy and n candidate deliveries of it with symbolic payload sizes"""
    db = reldb.sym_db(ex, prog, {'Topic': 1, 'Subscription': 1, 'Message': n, 'Delivery': n}, exists=True)
    s = db.t['Subscription'][0]
    ex.assume(And(s.isnull('deleted_at'), s.isnull('max_delivery_attempts')))
    for i, d in enumerate(db.t['Delivery']):
        ex.assume(And(d.v['subscription_id'] == s.v['id'], d.v['message_id'] == db.t['Message'][i].v['id'], d.isnull('completed_at')))
    db.snap0 = db.snapshot()
    return db, s


def budget_kernel(chk, prog):
    N = 7 if chk.thorough else 5

    def harness(ex, ob):
        n = ex.choose(N + 1)
        db, s = mk_sub_and_candidates(ex, prog, max(n, 1))
        mm, mb = z3.Int('max_messages'), z3.Int('max_bytes')
        ex.assume(z3.And(mm >= 1, mm < 2**31, mb >= 1, mb < 2**31))
        strict = z3.Bool('strict')
        p = ex.new_struct(A + 'GetSubscriptionMessagesParams', Name='', ID=ex.new_ptr(s.v['id']), MaxMessages=mm, MaxBytes=mb, MaxBytesStrict=strict)
        act = ex.call_named(A + 'NewGetSubscriptionMessages', [p])
        tx = reldb.begin_tx(ex, db)
        ctx = new_context(ex)
        sub, err = ex.call_named(G + 'verifySub', [act, ctx, tx])
        # the candidate list as the query would deliver it: the first n rows with their message edge loaded (query LIMIT = MaxMessages)
        cands = []
        for i in range(n):
            e = reldb.entity_from_row(ex, db, 'Delivery', db.t['Delivery'][i])
            ex.setf(ex.getf(e, 'Edges'), 'Message', None)
            es = e.get().f[ex.struct_field_index(e.get().t, 'Edges')]
            es.f[ex.struct_field_index(es.t, 'Message')] = reldb.entity_from_row(ex, db, 'Message', db.t['Message'][i])
            cands.append(e)
        ex.assume(mm >= n)
        err = ex.call_named(G + 'applyResults', [act, ctx, tx, sub, ex.mkslice(cands)])
        ob.verify(ex, 'applyResults-succeeds', err is None)
        rp = action_results(ex, act)
        res = ex.getf(rp, 'Deliveries').items()
        total = 0
        for d in res:
            total = total + ex.getf(d, 'Payload').len
        d_ = lambda m: {'candidates': n, 'sizes': [m.eval(db.t['Message'][i].v['payload'].len, model_completion=True).as_long() for i in range(n)],
                        'max_bytes': m.eval(mb, model_completion=True).as_long(), 'strict': str(m.eval(strict, model_completion=True)), 'accepted': len(res)}
        ob.verify(ex, 'at-most-max-messages', mm >= len(res), d_)
        ob.verify(ex, 'within-byte-budget-or-single-oversize', Or(total <= mb, And(Not(strict), len(res) == 1)), d_)
        ob.verify(ex, 'strict-mode-never-exceeds-budget', Implies(strict, total <= mb), d_)
        # no stall inside one fetch: a candidate is left behind only if it no longer fits next to what was taken (the message limit
        # is not binding here: max_messages >= candidates)
        for i in range(n):
            taken = Or(*[ex.eq(ex.getf(d, 'ID'), db.t['Delivery'][i].v['id']) for d in res]) if res else False
            ob.verify(ex, 'no-fitting-candidate-left-behind[%d]' % i, Or(taken, total + db.t['Message'][i].v['payload'].len > mb), d_)
        if n > 0:
            first = db.t['Message'][0].v['payload'].len
            ob.verify(ex, 'non-strict-always-delivers-something', Implies(Not(strict), len(res) >= 1), d_)
    chk.run('budget-kernel:applyResults', prog, harness, bounds={'candidates': '0..%d' % N, 'payload sizes': 'symbolic', 'limits': 'symbolic >= 1'}, setup=world.setup, max_paths=50000)


def fetch_never_parks_on_candidates(chk, prog):
    """no stall inside the fetch: when deliverable candidates exist the fetch action returns at once - also in strict byte mode when
    none of them fits - so that the sender is back in its own select, where an ack that frees capacity wakes it (a fetch that waits
    inside the action with the old budget would not see that wake)"""
    def harness(ex, ob):
        n = 1 + ex.choose(2)
        db, s = mk_sub_and_candidates(ex, prog, n)
        ex.assume(And(s.isnull('filter'), Not(s.v['ordered_delivery'])))
        client = reldb.make_client(ex, db)
        mm, mb = z3.Int('max_messages'), z3.Int('max_bytes')
        ex.assume(z3.And(mm >= 1, mm < 2**31, mb >= 1, mb < 2**31))
        strict = z3.Bool('strict')
        p = ex.new_struct(A + 'GetSubscriptionMessagesParams', Name='', ID=ex.new_ptr(s.v['id']), MaxMessages=mm, MaxBytes=mb, MaxBytesStrict=strict, MaxWait=0)
        act = ex.call_named(A + 'NewGetSubscriptionMessages', [p])
        parked = []

        def select(ex_, states, blocking, t):
            zero = tuple([ex_.zero(x) for x in ex_.prog.types[t]['elems'][2:]])
            if not blocking:
                return (-1, False) + zero
            parked.append(len(states))
            raise Stop('parked')
        ex.xp.select = select
        err = None
        try:
            err = ex.call_named(G + 'ExecuteClient', [act, new_context(ex), client])
        except Stop:
            pass
        nows = stdlib.clock(ex)['nows']
        # at least one candidate is due and retained throughout the call
        due = Or(*[And(d.exists, d.v['attempt_at'] <= nows[0], d.v['expires_at'] > nows[-1]) for d in db.snap0['Delivery']]) if nows else False
        dsc = lambda m: {'candidates': n, 'strict': str(m.eval(strict, model_completion=True)), 'max_bytes': m.eval(mb, model_completion=True).as_long(),
                         'sizes': [m.eval(zint(x.v['payload'].len), model_completion=True).as_long() for x in db.snap0['Message']]}
        def rp(m, desc):
            # the failure class on the real stream: byte limit 100, messages of 80 and 50 bytes; the first is sent, the second does not fit;
            # an ack for the first frees the bytes - the second must then be sent promptly (real MessageStreamer.Go, scripted connection)
            from gosym import replay
            base = 2 * 10**18
            rws = replay.rows_from_model(m, db.schema, {'Topic': db.snap0['Topic'], 'Subscription': db.snap0['Subscription'], 'Message': [], 'Delivery': []})
            tid, sid = rws['Topic'][0]['id'], rws['Subscription'][0]['id']
            for rw in rws['Subscription']:
                rw.update(expires_at=str(base + 7200 * 10**9), push_endpoint=None, deleted_at=None, live=True, topic_id=tid, ordered_delivery=False, filter=None,
                          max_delivery_attempts=None, dead_letter_topic_id=None, delivery_delay='0')
            for rw in rws['Topic']:
                rw.update(deleted_at=None, live=True)
            rws['Message'], rws['Delivery'] = [], []
            for i, ln in enumerate((80, 50)):
                mid, did = replay.uuid_str(0xabc0 + i), replay.uuid_str(0xdef0 + i)
                rws['Message'].append({'slot': i, 'id': mid, 'topic_id': tid, 'payload': replay.payload_for(i, ln), 'attributes': {}, 'order_key': None,
                                       'published_at': str(base - (10 - i) * 10**9)})
                rws['Delivery'].append({'slot': i, 'id': did, 'message_id': mid, 'subscription_id': sid, 'published_at': str(base - (10 - i) * 10**9),
                                        'attempt_at': str(base - (10 - i) * 10**9), 'last_attempted_at': None, 'attempts': 0, 'completed_at': None,
                                        'expires_at': str(base + 7200 * 10**9), 'not_before_id': None})
            scn = {'base_now': str(base), 'rows': rws,
                   'ops': [{'op': 'stream', 'subscription_id': sid, 'flow': {'max_messages': 10, 'max_bytes': 100}, 'duration_ms': 4000,
                            'requests': [{'ack': [rws['Delivery'][0]['id']], 'after_sent': 1}]}]}
            out = replay.run_scenarios([scn])[0]
            path = replay.save_scenario('C11', 'stream-ack-frees-bytes', scn, desc)
            if 'error' in out:
                raise RuntimeError(out['error'][-400:])
            r = out['results'][0]
            sent = [x['id'] for x in (r.get('sent') or [])]
            if rws['Delivery'][0]['id'] not in sent or r.get('requests_delivered') != 1:
                return False, path
            return (rws['Delivery'][1]['id'] not in sent), path
        ob.verify(ex, 'fetch-returns-instead-of-waiting-when-candidates-are-due', Implies(due, not parked), dsc, replay=rp)
    chk.run('fetch:returns-at-once-when-candidates-are-due', prog, harness, bounds={'candidates': '1..2 due deliveries', 'limits': 'symbolic, strict or not'},
            setup=world.setup, max_paths=50000)


def flow_control_range(chk, prog):
    def harness(ex, ob):
        a, b = z3.Int('max_outstanding_messages'), z3.Int('max_outstanding_bytes')
        ex.assume(z3.And(a >= -2**63, a < 2**63, b >= -2**63, b < 2**63))
        fc = ex.call_named('go.6river.tech/mmmbbb/services.effectiveFlowControl', [a, b])
        d = lambda m: {'max_messages': str(m.eval(a, model_completion=True)), 'max_bytes': str(m.eval(b, model_completion=True))}
        ob.verify(ex, 'effective-limits-are-positive', And(ex.getf(fc, 'MaxMessages') >= 1, ex.getf(fc, 'MaxBytes') >= 1), d)
        ob.verify(ex, 'positive-client-limits-are-honoured', And(Implies(And(a > 0, a < 2**62), ex.getf(fc, 'MaxMessages') <= a),
                                                                  Implies(And(b > 0, b < 2**62), ex.getf(fc, 'MaxBytes') <= b)), d)
    chk.run('client-limits:effectiveFlowControl', prog, harness, bounds={'limits': 'any int64'})


class Stop(PathAbort):
    pass


def sender_step(chk, prog):
    """one iteration of the real sender closure from an arbitrary state of its captured variables satisfying the bound"""
    NP, NC = (4, 4) if chk.thorough else (3, 3)
    fn = find_closure(prog, MS + 'Go', ['NewGetSubscriptionMessages'])

    def harness(ex, ob):
        npend = ex.choose(NP + 1)
        ncand = ex.choose(NC + 1)
        db, s = mk_sub_and_candidates(ex, prog, max(ncand, 1))
        client = reldb.make_client(ex, db)
        mm, mb = z3.Int('fc.max_messages'), z3.Int('fc.max_bytes')
        ex.assume(z3.And(mm >= 1, mm < 2**31, mb >= 1, mb < 2**31))
        fc = ex.new_ptr(ex.new_struct(A + 'FlowControl', MaxMessages=mm, MaxBytes=mb))
        pend = MapObj()
        psizes = []
        for i in range(npend):
            pid = ex.fresh_uuid('pending%d' % i)
            sz = z3.Int('pending%d.bytes' % i)
            ex.assume(z3.And(sz >= 0, sz < 2**31))
            psizes.append(sz)
            pend.ents.append([pid, ex.new_ptr(ex.new_struct(A + 'pendingMessage', bytes=sz, nextAttemptAt=z3.Int('pending%d.next' % i)))])
        # the invariant: the pending set respects the limits (a single oversize message is allowed)
        ex.assume(And(mm >= npend, Or(sum(psizes) <= mb, npend == 1) if npend else True))
        ms = ex.new_ptr(ex.new_struct(A + 'MessageStreamer', Client=client, SubscriptionID=ex.new_ptr(s.v['id']), SubscriptionName='', Logger=Opaque('logger')))
        sent = []

        class Conn(Opaque):
            def go_invoke(self, ex_, method, args):
                if method in ('Send',):
                    sent.append(args[1])
                    raise Stop('first send reached')
                if method == 'SendBatch':
                    sent.extend(args[1].items())
                    raise Stop('first send reached')
                raise Unsupported('conn.' + method)

            def go_implements(self, ex_, at, need):
                return False
        conn = Iface('model.conn', Conn('conn'))
        ctxv = new_context(ex)
        ctx = ex.new_ptr(ctxv)
        wake = ex.new_ptr(Chan(1, name='wakeSend'))

        fetches = {'n': 0}

        def stub_execute_client(ex_, args, name):
            fetches['n'] += 1
            if fetches['n'] > 1:
                raise Stop('one fetch cycle explored')
            act = args[0]
            tx = reldb.begin_tx(ex_, db)
            sub, err = ex_.call_named(G + 'verifySub', [act, ctxv, tx])
            if err is not None:
                raise PathAbort('sub')
            cands = []
            for i in range(ncand):
                e = reldb.entity_from_row(ex_, db, 'Delivery', db.t['Delivery'][i])
                es = e.get().f[ex_.struct_field_index(e.get().t, 'Edges')]
                es.f[ex_.struct_field_index(es.t, 'Message')] = reldb.entity_from_row(ex_, db, 'Message', db.t['Message'][i])
                cands.append(e)
            # the query returns at most MaxMessages candidates
            lim = ex_.getf(ex_.getf(act, 'actionBase'), 'params')
            maxm = ex_.getf(lim, 'MaxMessages')
            keep = []
            for k, c in enumerate(cands):
                if ex_.branch(maxm > k):
                    keep.append(c)
            return ex_.call_named(G + 'applyResults', [act, ctxv, tx, sub, ex_.mkslice(keep)])

        def select(ex_, states, blocking, t):
            zero = tuple([ex_.zero(x) for x in ex_.prog.types[t]['elems'][2:]])
            if not blocking:
                return (-1, False) + zero
            raise Stop('sender blocks on flow control')
        ex.xp.select = select
        ex.intrinsics = dict(ex.intrinsics)
        ex.intrinsics[G + 'ExecuteClient'] = stub_execute_client
        for i in range(ncand):
            for pid, _ in pend.ents:
                ex.assume(db.t['Delivery'][i].v['id'] != pid)
        try:
            ex.call_value(bind_closure(ex, fn, ms=ex.new_ptr(ms), ctx=ctx, mu=ex.new_ptr(ex.zero('sync.Mutex')), fc=fc, pending=ex.new_ptr(pend), wakeSend=wake, conn=ex.new_ptr(conn)), [])
        except Stop as e:
            pass
        except GoPanic as p:
            ob.verify(ex, 'sender-never-violates-a-constructor-precondition', False, lambda m: {'panic': str(p)[:200]})
            return
        d = lambda m: {'pending_before': npend, 'candidates': ncand, 'sent': len(sent),
                       'limits': [m.eval(mm, model_completion=True).as_long(), m.eval(mb, model_completion=True).as_long()]}
        if not sent:
            ob.reached(ex)
            return
        n = len(pend.ents)
        total = 0
        for pid, pm in pend.ents:
            total = total + ex.getf(pm, 'bytes')
        ob.verify(ex, 'outstanding-messages-within-limit', mm >= n, d)
        ob.verify(ex, 'outstanding-bytes-within-limit-or-single-oversize', Or(total <= mb, n == 1), d)
        ob.verify(ex, 'every-sent-message-is-tracked-as-pending', all(any(ex.eq(ex.getf(x, 'ID'), pid) is True for pid, _ in pend.ents) for x in sent), d)
    chk.run('sender-step:bound-preserved', prog, harness, bounds={'pending before': '0..%d' % NP, 'candidates': '0..%d' % NC, 'limits': 'symbolic >= 1'},
            setup=world.setup, max_paths=100000)
    chk.assumptions += ['inductive step: from any state of the sender\'s captured variables that satisfies the bound, the state at the next Send satisfies it; '
                        'concurrent removals (acks) only shrink the pending set and preserve the bound; a client lowering its limits mid-stream is outside the claim',
                        'ExecuteClient is replaced by a stub that feeds an arbitrary candidate list (<= 2) through the real applyResults with the parameters the closure built']


def reader_wakes(chk, prog):
    """the reader closure removes acked/nacked ids from the pending set and wakes the sender before it reads again"""
    fn = find_closure(prog, MS + 'Go', ['doAcksNacks'])

    def harness(ex, ob):
        db = reldb.sym_db(ex, prog, {'Topic': 1, 'Subscription': 1, 'Message': 1, 'Delivery': 2}, exists=True)
        client = reldb.make_client(ex, db)
        ids = [db.t['Delivery'][0].v['id'], db.t['Delivery'][1].v['id']]
        pend = MapObj()
        for i, pid in enumerate(ids):
            pend.ents.append([pid, ex.new_ptr(ex.new_struct(A + 'pendingMessage', bytes=1, nextAttemptAt=0))])
        acked = ex.choose(2) == 1
        calls = {'n': 0}
        woke = []

        class Conn(Opaque):
            def go_invoke(self, ex_, method, args):
                if method == 'Receive':
                    calls['n'] += 1
                    if calls['n'] == 1:
                        r = ex_.new_struct(A + 'MessageStreamRequest', Ack=ex_.mkslice([ids[0]]) if acked else Slice(None, 0, 0, 0),
                                           Nack=Slice(None, 0, 0, 0) if acked else ex_.mkslice([ids[0]]))
                        return (ex_.new_ptr(r), None)
                    raise Stop('second receive')
                raise Unsupported('conn.' + method)
        ms = ex.new_ptr(ex.new_struct(A + 'MessageStreamer', Client=client, SubscriptionID=ex.new_ptr(db.t['Subscription'][0].v['id']), Logger=Opaque('logger')))
        tryWake = PyFunc(lambda ex_, a: woke.append(len(pend.ents)), 'tryWake')
        ctxv = new_context(ex)

        def select(ex_, states, blocking, t):
            zero = tuple([ex_.zero(x) for x in ex_.prog.types[t]['elems'][2:]])
            if not blocking:
                return (-1, False) + zero
            raise Unsupported('blocking select in reader')
        ex.xp.select = select
        fc = ex.new_ptr(ex.new_struct(A + 'FlowControl', MaxMessages=1, MaxBytes=1))
        try:
            ex.call_value(bind_closure(ex, fn, ctx=ex.new_ptr(ctxv), tryWake=ex.new_ptr(tryWake), conn=ex.new_ptr(Iface('model.conn', Conn('conn'))), mu=ex.new_ptr(ex.zero('sync.Mutex')), fc=fc, ms=ex.new_ptr(ms), pending=ex.new_ptr(pend)), [])
        except Stop:
            pass
        ob.verify(ex, 'acked-or-nacked-id-leaves-the-pending-set', not any(ex.eq(pid, ids[0]) is True for pid, _ in pend.ents))
        ob.verify(ex, 'other-pending-ids-stay', any(ex.eq(pid, ids[1]) is True for pid, _ in pend.ents))
        ob.verify(ex, 'sender-woken-after-capacity-was-freed', len(woke) >= 1 and woke[-1] == 1)
    chk.run('reader:frees-capacity-and-wakes', prog, harness, bounds={'pending': 2, 'request': 'one ack or one nack'}, setup=world.setup, max_paths=50000)


def reader_applies_every_ack(chk, prog):
    """a streaming ack / nack is applied to the database whether or not this stream handed the message out (C03: a streaming ack that
    succeeded is final; the ack may arrive on another stream than the delivery did)"""
    fn = find_closure(prog, MS + 'Go', ['doAcksNacks'])

    def harness(ex, ob):
        db = reldb.sym_db(ex, prog, {'Topic': 1, 'Subscription': 1, 'Message': 1, 'Delivery': 2}, exists=True)
        client = reldb.make_client(ex, db)
        rows = db.t['Delivery']
        for r in rows:
            ex.assume(And(r.isnull('completed_at'), ex.eq(r.v['subscription_id'], db.t['Subscription'][0].v['id'])))
        s0 = db.t['Subscription'][0]
        ex.assume(And(s0.isnull('deleted_at'), s0.isnull('max_delivery_attempts'), s0.isnull('filter'), Not(s0.v['ordered_delivery'])))
        ids = [r.v['id'] for r in rows]
        pend = MapObj()
        npend = ex.choose(3)          # none, the first, or both of the ids were sent on this stream
        for pid in ids[:npend]:
            pend.ents.append([pid, ex.new_ptr(ex.new_struct(A + 'pendingMessage', bytes=1, nextAttemptAt=0))])
        acked = ex.choose(2) == 1
        calls = {'n': 0}

        class Conn(Opaque):
            def go_invoke(self, ex_, method, args):
                if method == 'Receive':
                    calls['n'] += 1
                    if calls['n'] == 1:
                        r = ex_.new_struct(A + 'MessageStreamRequest', Ack=ex_.mkslice(list(ids)) if acked else Slice(None, 0, 0, 0),
                                           Nack=Slice(None, 0, 0, 0) if acked else ex_.mkslice(list(ids)))
                        return (ex_.new_ptr(r), None)
                    raise Stop('second receive')
                raise Unsupported('conn.' + method)
        ms = ex.new_ptr(ex.new_struct(A + 'MessageStreamer', Client=client, SubscriptionID=ex.new_ptr(db.t['Subscription'][0].v['id']), Logger=Opaque('logger')))
        tryWake = PyFunc(lambda ex_, a: None, 'tryWake')
        ctxv = new_context(ex)

        def select(ex_, states, blocking, t):
            zero = tuple([ex_.zero(x) for x in ex_.prog.types[t]['elems'][2:]])
            if not blocking:
                return (-1, False) + zero
            raise Unsupported('blocking select in reader')
        ex.xp.select = select
        fc = ex.new_ptr(ex.new_struct(A + 'FlowControl', MaxMessages=1, MaxBytes=1))
        pre = db.snapshot()
        k0 = len(stdlib.clock(ex)['nows'])
        err = None
        try:
            err = ex.call_value(bind_closure(ex, fn, ctx=ex.new_ptr(ctxv), tryWake=ex.new_ptr(tryWake), conn=ex.new_ptr(Iface('model.conn', Conn('conn'))), mu=ex.new_ptr(ex.zero('sync.Mutex')), fc=fc, ms=ex.new_ptr(ms), pending=ex.new_ptr(pend)), [])
        except Stop:
            pass
        if err is not None:
            raise PathAbort('reader failed')
        nows = stdlib.clock(ex)['nows'][k0:]
        d = lambda m: {'sent on this stream': npend, 'request': 'ack' if acked else 'nack'}

        def rp(m, desc):
            # the real MessageStreamer.Go against a scripted connection: deliveries "sent here" are due (the stream sends them first),
            # the others are leased elsewhere (redelivery deadline one hour ahead); then the ack / nack request for all of them
            from gosym import replay
            base = 2 * 10**18
            rws = replay.rows_from_model(m, db.schema, pre)
            FAR = str(base + 3600 * 10**9)
            for i, rw in enumerate(rws['Delivery']):
                rw['attempt_at'] = str(base - 10**9) if i < npend else FAR
                rw['expires_at'] = str(base + 7200 * 10**9)
                rw['completed_at'] = None
                rw['not_before_id'] = None
            for rw in rws['Subscription']:
                rw['expires_at'] = str(base + 7200 * 10**9)
                rw['push_endpoint'] = None
            idl = [rw['id'] for rw in rws['Delivery']]
            scn = {'base_now': str(base), 'rows': rws,
                   'ops': [{'op': 'stream', 'subscription_id': rws['Subscription'][0]['id'], 'flow': {'max_messages': 10, 'max_bytes': 10**6}, 'duration_ms': 1500,
                            'requests': [{('ack' if acked else 'nack'): idl, 'after_sent': npend}]}]}
            out = replay.run_scenarios([scn])[0]
            path = replay.save_scenario(chk.prop, 'stream-%s-%d-sent-here' % ('ack' if acked else 'nack', npend), scn, desc)
            if 'error' in out:
                raise RuntimeError(out['error'][-400:])
            if out['results'][0].get('requests_delivered') != 1:
                return False, path
            post = {x['id']: x for x in out['post'].get('Delivery') or []}
            bad = False
            for i, did in enumerate(idl):
                x = post.get(did)
                if x is None:
                    continue
                if acked:
                    bad = bad or x.get('completed_at') is None
                elif i >= npend:
                    bad = bad or (x.get('completed_at') is None and str(x.get('attempt_at')) == FAR)
            return bad, path
        for i, r0 in enumerate(pre['Delivery']):
            q = db.t['Delivery'][i]
            if acked:
                ob.verify(ex, 'stream-ack-is-recorded[%s]' % ('sent here' if i < npend else 'sent elsewhere'), Not(q.isnull('completed_at')), d, replay=rp)
            else:
                # a nack of a live delivery whose redelivery deadline has passed is rescheduled from the time of the call
                # (or the delivery is dead-lettered, i.e. completed)
                lbl = 'stream-nack-is-applied[%s]' % ('sent here' if i < npend else 'sent elsewhere')
                if not nows:        # the nack action reads the clock first: no reading = it never ran
                    ob.verify(ex, lbl, False, d, replay=rp)
                    continue
                live_overdue = And(r0.v['attempt_at'] < nows[0], r0.v['expires_at'] > nows[-1])
                ob.verify(ex, lbl, Implies(live_overdue, Or(Not(q.isnull('completed_at')), q.v['attempt_at'] >= nows[0])), d, replay=rp)
    chk.run('reader:every-stream-ack-and-nack-reaches-the-database', prog, harness,
            bounds={'deliveries': 2, 'sent on this stream': '0..2 of them', 'request': 'acks or nacks for both'}, setup=world.setup, max_paths=50000)


def refresher_rearms(chk, prog):
    """the goroutine that re-syncs the pending set after external acks re-arms its (single-use) notifier BEFORE it reads the
    database, so an ack committing during that read is not lost (register-before-query, as for the puller in C10)"""
    fn = find_closure(prog, MS + 'Go', ['PublishAwaiter', 'DeliveryClient).Query'])

    def harness(ex, ob):
        db = reldb.sym_db(ex, prog, {'Topic': 1, 'Subscription': 1, 'Message': 1, 'Delivery': 1}, exists=True)
        client = reldb.make_client(ex, db)
        pid = db.t['Delivery'][0].v['id']
        pend = MapObj()
        pend.ents.append([pid, ex.new_ptr(ex.new_struct(A + 'pendingMessage', bytes=1, nextAttemptAt=0))])
        ms = ex.new_ptr(ex.new_struct(A + 'MessageStreamer', Client=client, SubscriptionID=ex.new_ptr(db.t['Subscription'][0].v['id']), Logger=Opaque('logger')))
        ctxv = new_context(ex)
        woke = []
        tryWake = PyFunc(lambda ex_, a: woke.append(1), 'tryWake')
        waits = {'n': 0}

        def reg(ex_, args, name):
            ch = ex_.call_plain(name, args)
            ex_.events.append(('reg', ch))
            return ch

        def cancel(ex_, args, name):
            ex_.events.append(('cancel', args[1]))
            return ex_.call_plain(name, args)

        def select(ex_, states, blocking, t):
            zero = tuple([ex_.zero(x) for x in ex_.prog.types[t]['elems'][2:]])
            if not blocking:
                return (-1, False) + zero
            waits['n'] += 1
            if waits['n'] > 1:
                raise Stop('second wait reached')
            regs = [e[1] for e in ex_.events if e[0] == 'reg']
            for idx, (dr, ch, snd) in enumerate(states):
                if isinstance(ch, Chan) and ch in regs:
                    ch.closed = True
                    ex_.events.append(('woken', ch))
                    return (idx, False) + zero
            raise Unsupported('refresher does not wait on a registered notifier')
        ex.xp.select = select
        ex.intrinsics = dict(ex.intrinsics)
        ex.intrinsics[A + 'PublishAwaiter'] = reg
        ex.intrinsics[A + 'CancelPublishAwaiter'] = cancel
        try:
            ex.call_value(bind_closure(ex, fn, ms=ex.new_ptr(ms), ctx=ex.new_ptr(ctxv), mu=ex.new_ptr(ex.zero('sync.Mutex')), pending=ex.new_ptr(pend), tryWake=ex.new_ptr(tryWake)), [])
        except Stop:
            pass
        ev = ex.events
        woken = [k for k, e in enumerate(ev) if e[0] == 'woken']
        reads = [k for k, e in enumerate(ev) if e[0] == 'stmt' and e[2] == 'SELECT' and k > (woken[0] if woken else -1)]
        ob.verify(ex, 'refresher-reads-the-database-after-a-wake', bool(woken) and bool(reads))
        # what the re-sync does: an id whose delivery was completed (external Acknowledge) or expired leaves the pending set and the sender is woken
        drow = db.t['Delivery'][0]
        nows = stdlib.clock(ex)['nows']
        if nows:
            gone = Or(Not(drow.isnull('completed_at')), drow.v['expires_at'] < nows[0])
            kept = And(drow.isnull('completed_at'), drow.v['expires_at'] >= nows[-1])
            still = any(ex.eq(k, pid) is True for k, _ in pend.ents)
            ob.verify(ex, 'externally-acked-or-expired-id-leaves-the-pending-set', Implies(gone, not still))
            ob.verify(ex, 'still-outstanding-id-stays-pending', Implies(kept, still))
            ob.verify(ex, 'sender-woken-when-capacity-was-freed', Implies(gone, len(woke) >= 1))
        if woken and reads:
            live = set()
            for k, e in enumerate(ev[:reads[0]]):
                if e[0] == 'reg' and k > woken[0]:
                    live.add(id(e[1]))
                if e[0] == 'cancel' and isinstance(e[1], Chan):
                    live.discard(id(e[1]))
            ob.verify(ex, 'notifier-re-armed-before-the-database-read', len(live) >= 1,
                      lambda m: {'events': [e[0] for e in ev]})
    chk.run('refresher:re-arms-before-reading', prog, harness, bounds={'iterations': 1}, setup=world.setup, parallel=False)


if __name__ == '__main__':
    chk = Check('C11')
    prog = load_program()
    chk.repo_hash = prog.repo_hash
    flow_control_range(chk, prog)
    budget_kernel(chk, prog)
    fetch_never_parks_on_candidates(chk, prog)
    sender_step(chk, prog)
    reader_wakes(chk, prog)
    reader_applies_every_ack(chk, prog)
    refresher_rearms(chk, prog)
    chk.assumptions += ['the no-stall half is decided only as wake edges (reader frees capacity and wakes; external acks wake through C10); interleavings inside Go are not enumerated']
    chk.finish()
