#!/usr/bin/env python3-vt
"""C12: resource names -- one live resource per name; Get/List show exactly the live set."""
import sys, os
sys.path.insert(0, os.path.dirname(os.path.dirname(os.path.abspath(__file__))))
import z3
from gosym.core import *
from gosym.runner import Check, load_program
from gosym import reldb, world, stdlib, replay, grpcmodel
from gosym.world import *
from gosym.stdlib import uuid_str_fn, uuid_parse_fn
from gosym.step import run_transition
from checks.handlers import *
import checks.transitions as tr
import checks.oracles as O
from checks.tcheck import run_property

LISTS = [
    # method, service, entity, kind, response list field, name getter
    ('ListTopics', 'publisher', 'Topic', 'topics', 'Topics', True),
    ('ListSubscriptions', 'subscriber', 'Subscription', 'subscriptions', 'Subscriptions', True),
    ('ListSnapshots', 'subscriber', 'Snapshot', 'snapshots', 'Snapshots', False),
]


def list_obligation(chk, prog, spec, hs):
    method, service, entity, kind, field, soft = spec
    h = [x for x in hs if x['method'] == method][0]
    sizes = {'Topic': 2, 'Subscription': 0, 'Message': 0, 'Delivery': 0, 'Snapshot': 0}
    sizes[entity] = 3 if entity != 'Subscription' else 2
    if entity != 'Topic':
        sizes['Topic'] = 1

    def harness(ex, ob):
        db = reldb.sym_db(ex, prog, sizes, exists=True)
        plain_config(ex, db)
        rows = name_rows(ex, db, entity, kind)
        q = PROJECT_VOCAB[ex.choose(len(PROJECT_VOCAB))]
        project = 'projects/' + q
        ps = z3.Int('req.page_size')
        ex.assume(z3.And(ps >= -2**31, ps < 2**31))
        has_tok = ex.choose(2) == 1
        tok = z3.Int('req.page_token_id')
        ex.assume(z3.And(tok >= 0, tok < 2**128))
        tokstr = UUIDStr(tok) if has_tok else ''
        req = ex.new_ptr(ex.new_struct(PB + method + 'Request', Project=project, PageSize=ps, PageToken=tokstr))
        resp, err, code = call_handler(ex, db, h, req)

        def describe(m):
            return {'project': 'projects/' + q, 'page_size': replay.mval(m, ps), 'page_token': replay.uuid_str(replay.mval(m, tok)) if has_tok else '',
                    'rows': replay.rows_from_model(m, db.schema, db.t)}

        def rp(m, desc):
            scn = {'base_now': '2000000000000000000', 'rows': desc['rows'],
                   'ops': [{'op': 'grpc', 'service': service, 'method': method,
                            'request': {'project': desc['project'], 'pageSize': desc['page_size'], 'pageToken': desc['page_token']}}]}
            out = replay.run_scenarios([scn])[0]
            path = replay.save_scenario('C12', method, scn, desc)
            if 'error' in out:
                raise RuntimeError(out['error'][-400:])
            r = out['results'][0]
            got = [x.get('name') for x in (r.get('response') or {}).get(field[0].lower() + field[1:], [])]
            eff = desc['page_size'] if 0 < desc['page_size'] < 100 else 100
            cands = sorted((x for x in desc['rows'].get(entity, []) if (entity == 'Snapshot' or x.get('deleted_at') is None)
                            and x['name'].startswith(desc['project'] + '/' + kind + '/')
                            and (not desc['page_token'] or replay.uuid_int(x['id']) > replay.uuid_int(desc['page_token']))),
                           key=lambda x: replay.uuid_int(x['id']))
            want = [x['name'] for x in cands[:eff]]
            want_token = cands[:eff][-1]['id'] if len(cands[:eff]) >= eff else ''
            got_token = (r.get('response') or {}).get('nextPageToken', '')
            return (got != want or got_token != want_token), path
        ob.verify(ex, 'list-succeeds', err is None, describe, replay=rp)
        if err is not None:
            return
        eff = Ite(And(ps > 0, ps < 100), ps, 100)
        items = ex.getf(resp, field).items()
        ids = []
        for it in items:
            nm = ex.getf(it, 'Name')
            match = [(And(r.exists, ex.eq(r.v['name'], nm)), r) for r, p, l in rows]
            ids.append(match)
        cands = []
        for r, p, l in rows:
            c = And(r.exists, p == q)
            if entity != 'Snapshot':
                c = And(c, r.isnull('deleted_at'))
            if has_tok:
                c = And(c, r.v['id'] > tok)
            cands.append((c, r))
        ncand = sum([Ite(c, 1, 0) for c, _ in cands])
        if os.environ.get('DBG'):
            print('PC', ex.pc[-8:]); print('F', simp(ex.eq(len(items), Ite(ncand < eff, ncand, eff)))); sys.stdout.flush()
        ob.verify(ex, 'page-length', ex.eq(len(items), Ite(ncand < eff, ncand, eff)), describe, replay=rp, known=known_pred)
        # every returned item is a candidate; returned ids strictly increase; nothing smaller was skipped
        last_id = None
        for k, match in enumerate(ids):
            ob.verify(ex, 'returned-is-live-member-of-project[%d]' % k, Or(*[And(m, c) for (m, r), (c, _) in zip(match, cands)]), describe, replay=rp)
            idk = None
            for (m, r) in match:
                idk = r.v['id'] if idk is None else Ite(m, r.v['id'], idk)
            if last_id is not None:
                ob.verify(ex, 'ids-increase[%d]' % k, idk > last_id, describe, replay=rp)
            last_id = idk
        for j, (c, r) in enumerate(cands):
            listed = Or(*[m for match in ids for (m, rr) in match if rr is r])
            ob.verify(ex, 'no-live-member-skipped[%d]' % j, Implies(And(c, Not(listed)), And(len(items) > 0, last_id is not None and r.v['id'] > last_id) if items else False),
                      describe, replay=rp, known=known_pred)
        nxt = ex.getf(resp, 'NextPageToken')
        if items:
            ob.verify(ex, 'next-page-token', And(Implies(eff <= len(items), ex.eq(nxt, UUIDStr(last_id))), Implies(eff > len(items), ex.eq(nxt, ''))), describe, replay=rp)
        else:
            ob.verify(ex, 'next-page-token', ex.eq(nxt, ''), describe, replay=rp)
    chk.run('list:' + method, prog, harness, bounds=dict(sizes, page_size='any int32', page_token='absent or any uuid', projects='vocabulary %s for every row and for the request' % PROJECT_VOCAB), setup=world.setup, max_paths=100000)


def topic_list_obligation(chk, prog, method, entity, field, hs):
    """ListTopicSubscriptions / ListTopicSnapshots: exactly the live children of THE live topic of that name, in id order, paged.
    The state may hold a deleted topic that carries the same name as the live one (delete-then-create), with children of its own"""
    h = [x for x in hs if x['method'] == method][0]
    sizes = {'Topic': 2, 'Subscription': 0, 'Message': 0, 'Delivery': 0, 'Snapshot': 0}
    sizes[entity] = 2
    kind = 'subscriptions' if entity == 'Subscription' else 'snapshots'

    def harness(ex, ob):
        db = reldb.sym_db(ex, prog, sizes, exists=True)
        plain_config(ex, db)
        t0, t1 = db.t['Topic']
        t0.v['name'] = 'projects/p/topics/r0'
        same = ex.choose(2) == 1
        t1.v['name'] = 'projects/p/topics/r0' if same else 'projects/p/topics/r1'
        for i, r in enumerate(db.t[entity]):
            r.v['name'] = 'projects/p/%s/c%d' % (kind, i)
        reldb.assume_inv(ex, db)          # at most one live row per name: if the names coincide, one of the two topics is deleted
        ps = z3.Int('req.page_size')
        ex.assume(z3.And(ps >= -2**31, ps < 2**31))
        has_tok = ex.choose(2) == 1
        tok = z3.Int('req.page_token_id')
        ex.assume(z3.And(tok >= 0, tok < 2**128))
        req = ex.new_ptr(ex.new_struct(PB + method + 'Request', Topic='projects/p/topics/r0', PageSize=ps, PageToken=UUIDStr(tok) if has_tok else ''))
        resp, err, code = call_handler(ex, db, h, req)

        def describe(m):
            return {'topic': 'projects/p/topics/r0', 'page_size': replay.mval(m, ps), 'page_token': replay.uuid_str(replay.mval(m, tok)) if has_tok else '',
                    'rows': replay.rows_from_model(m, db.schema, db.t)}

        def rp(m, desc):
            scn = {'base_now': '2000000000000000000', 'rows': desc['rows'],
                   'ops': [{'op': 'grpc', 'service': 'publisher', 'method': method,
                            'request': {'topic': desc['topic'], 'pageSize': desc['page_size'], 'pageToken': desc['page_token']}}]}
            out = replay.run_scenarios([scn])[0]
            path = replay.save_scenario('C12', method, scn, desc)
            if 'error' in out:
                raise RuntimeError(out['error'][-400:])
            r = out['results'][0]
            live = [t for t in desc['rows']['Topic'] if t['name'] == desc['topic'] and t.get('deleted_at') is None]
            if len(live) != 1:
                return (r.get('code') in (None, 'OK')), path      # no live topic of that name: the call must fail
            got = (r.get('response') or {}).get(field[0].lower() + field[1:], [])
            eff = desc['page_size'] if 0 < desc['page_size'] < 100 else 100
            cands = sorted((x for x in desc['rows'].get(entity, []) if (entity == 'Snapshot' or x.get('deleted_at') is None) and x['topic_id'] == live[0]['id']
                            and (not desc['page_token'] or replay.uuid_int(x['id']) > replay.uuid_int(desc['page_token']))), key=lambda x: replay.uuid_int(x['id']))
            return (r.get('code') not in (None, 'OK') or got != [x['name'] for x in cands[:eff]]), path
        live_t = [And(t.exists, t.isnull('deleted_at'), ex.eq(t.v['name'], 'projects/p/topics/r0')) for t in (t0, t1)]
        ob.verify(ex, 'lists-iff-a-live-topic-has-that-name', ex.eq(err is None, Or(*live_t)), describe, replay=rp)
        if err is not None:
            return
        eff = Ite(And(ps > 0, ps < 100), ps, 100)
        names = list(ex.getf(resp, field).items())
        cands = []
        for r in db.t[entity]:
            c = And(r.exists, Or(*[And(lt, ex.eq(r.v['topic_id'], t.v['id'])) for lt, t in zip(live_t, (t0, t1))]))
            if entity != 'Snapshot':
                c = And(c, r.isnull('deleted_at'))
            if has_tok:
                c = And(c, r.v['id'] > tok)
            cands.append((c, r))
        ncand = sum([Ite(c, 1, 0) for c, _ in cands])
        ob.verify(ex, 'page-length', ex.eq(len(names), Ite(ncand < eff, ncand, eff)), describe, replay=rp)
        for k, nm in enumerate(names):
            ob.verify(ex, 'returned-is-a-live-child-of-the-live-topic[%d]' % k, Or(*[And(c, ex.eq(r.v['name'], nm)) for c, r in cands]), describe, replay=rp)
    chk.run('list:' + method, prog, harness, bounds=dict(sizes, page_size='any int32', page_token='absent or any uuid',
                                                        topics='one addressed by name; the other may be a deleted topic of the same name'), setup=world.setup, max_paths=100000)


def plain_config(ex, db):
    """listing / getting does not depend on the optional configuration columns: keep them NULL here (they are C17's subject)"""
    for r in db.t['Subscription']:
        for col in ('min_backoff', 'max_backoff', 'push_endpoint', 'filter', 'max_delivery_attempts', 'dead_letter_topic_id'):
            r.null[col] = True


def known_pred(pred, m, desc):
    return True


def get_obligation(chk, prog, method, service, entity, kind, field, hs):
    h = [x for x in hs if x['method'] == method][0]
    sizes = {'Topic': 2, 'Subscription': 2, 'Message': 0, 'Delivery': 0, 'Snapshot': 2}

    def harness(ex, ob):
        db = reldb.sym_db(ex, prog, sizes, exists=True)
        plain_config(ex, db)
        name_rows(ex, db, entity, kind)
        name = 'projects/%s/%s/r%d' % (PROJECT_VOCAB[ex.choose(len(PROJECT_VOCAB))], kind, ex.choose(3))
        req = ex.new_ptr(ex.new_struct(PB + 'Get%sRequest' % entity, **{field: name}))
        resp, err, code = call_handler(ex, db, h, req)
        live = Or(*[And(r.exists, ex.eq(r.v['name'], name), True if entity == 'Snapshot' else r.isnull('deleted_at')) for r in db.t[entity]])
        d = lambda m: {'name': name, 'rows': replay.rows_from_model(m, db.schema, {entity: db.t[entity]})}
        ob.verify(ex, 'get-succeeds-iff-live', ex.eq(err is None, live), d)
        if err is not None:
            ob.verify(ex, 'absent-is-NotFound', code == 5, d)
        else:
            ob.verify(ex, 'get-returns-that-resource', ex.eq(ex.getf(resp, 'Name'), name), d)
    chk.run('get:' + method, prog, harness, bounds=sizes, setup=world.setup)


ERR_EXISTS = 'go.6river.tech/mmmbbb/actions.ErrExists'
ERR_NOTFOUND = 'go.6river.tech/mmmbbb/actions.ErrNotFound'


def is_err(e, gname, text):
    if e is None:
        return False
    if isinstance(e, str):
        return e == text
    v = e.v if isinstance(e, Iface) else e
    return getattr(v, 'name', None) == gname


def c12_create(ex, S, T):
    out = []
    a = S.args
    e = 'Topic' if T.kind == 'create-topic' else 'Subscription'
    live = Or(*[And(r.exists, r.isnull('deleted_at'), ex.eq(r.v['name'], a['name'])) for r in S.pre[e]])
    exists_err = is_err(S.err, ERR_EXISTS, 'already exists')
    out.append(('existing-live-name-is-AlreadyExists', Implies(live, exists_err)))
    if S.err is not None:
        for en in reldb.ENTITIES:
            out.append(('failed-create-no-change:' + en, table_same(ex, S.pre[en], S.post[en])))
        return out
    out.append(('create-succeeds-only-on-free-name', Not(live)))
    nr = O.new_rows(S, e)
    out.append(('one-new-row', len(nr) == 1))
    if len(nr) == 1:
        n = nr[0]
        fresh = And(*[Not(ex.eq(n.v['id'], r.v['id'])) for en in reldb.ENTITIES for r in S.pre[en]])
        out.append(('new-row-is-live-fresh-and-as-requested', And(n.exists, ex.eq(n.v['name'], a['name']), n.isnull('deleted_at'), Not(n.isnull('live')), n.v['live'], fresh,
                                                                    val_eq(ex, n.v['labels'], a['labels']) if isinstance(a['labels'], SymMap) else True)))
        # inherits nothing: no delivery refers to the new id
        out.append(('inherits-no-backlog', And(*[Not(And(d.exists, ex.eq(d.v['subscription_id'], n.v['id']))) for d in S.post['Delivery']])))
    for en in reldb.ENTITIES:
        for i, r in enumerate(S.pre[en]):
            out.append(('create-leaves-existing-rows:%s[%d]' % (en, i), row_same(ex, r, S.post[en][i])))
    # at most one live row per name afterwards
    rows = S.post[e]
    for i in range(len(rows)):
        for j in range(i + 1, len(rows)):
            out.append(('one-live-per-name[%d,%d]' % (i, j), Not(And(rows[i].exists, rows[j].exists, rows[i].isnull('deleted_at'), rows[j].isnull('deleted_at'),
                                                                         ex.eq(rows[i].v['name'], rows[j].v['name'])))))
    return out


def c12_create_snapshot(ex, S, T):
    """snapshot names are global: creating a name that is taken answers AlreadyExists (whatever topic the existing snapshot belongs to)
    and changes nothing"""
    out = []
    a = S.args
    taken = Or(*[And(r.exists, ex.eq(r.v['name'], a['snap_name'])) for r in S.pre['Snapshot']])
    out.append(('taken-snapshot-name-is-AlreadyExists', Implies(taken, is_err(S.err, ERR_EXISTS, 'already exists'))))
    if S.err is not None:
        for en in reldb.ENTITIES:
            out.append(('failed-create-no-change:' + en, table_same(ex, S.pre[en], S.post[en])))
    else:
        out.append(('create-succeeds-only-on-free-name', Not(taken)))
    return out


def c12_delete(ex, S, T):
    out = []
    a = S.args
    e = 'Topic' if T.kind == 'delete-topic' else 'Subscription'
    live = Or(*[And(r.exists, r.isnull('deleted_at'), ex.eq(r.v['name'], a['name'])) for r in S.pre[e]])
    out.append(('delete-succeeds-iff-live', ex.eq(S.err is None, live)))
    if S.err is not None:
        out.append(('absent-is-NotFound', is_err(S.err, ERR_NOTFOUND, 'not found')))
        return out
    for i, r in enumerate(S.pre[e]):
        q = S.post[e][i]
        hit = And(r.exists, r.isnull('deleted_at'), ex.eq(r.v['name'], a['name']))
        out.append(('deleted-row-marked[%d]' % i, Implies(hit, And(q.exists, Not(q.isnull('deleted_at')), q.isnull('live'), O.any_now(S, q.v['deleted_at'])))))
        out.append(('others-untouched[%d]' % i, Implies(Not(hit), row_same(ex, r, q))))
    out.append(('name-free-afterwards', Not(Or(*[And(q.exists, q.isnull('deleted_at'), ex.eq(q.v['name'], a['name'])) for q in S.post[e]]))))
    return out


def racing_create(chk, prog):
    """two creates of one name race: the loser hits the unique index and must report AlreadyExists (PostgreSQL dialect)"""
    for T in [tr.CreateTopic(), tr.CreateSub()]:
        T.name = 'racing-' + T.name
        T.dialect = 'postgres'
        T.witness_count = 0
        T.no_replay = True      # PostgreSQL-only behaviour: cannot be replayed on SQLite

        def fault_hook(ex):
            def h(ex_, db, b, row):
                if ex_.choose(2) == 1:
                    ex_.env['raced'] = True
                    return reldb.constraint_error(ex_, db, 'duplicate key value violates unique constraint')
                return None
            ex.env['racing_insert'] = h
            return None
        T.fault_hook = fault_hook

        def oracle(ex, S, T=T):
            if getattr(S, 'concrete', False) or not ex.env.get('raced'):
                return []
            return [('losing-racer-gets-AlreadyExists', is_err(S.err, ERR_EXISTS, 'already exists'))] + \
                   [('losing-racer-changes-nothing:' + en, table_same(ex, S.pre[en], S.post[en])) for en in reldb.ENTITIES]
        T.oracle = oracle
        run_transition(chk, prog, T, max_paths=100000)
    chk.assumptions.append('racing creates: the competing insert is modelled as the unique index (name, live) rejecting the second insert with the dialect\'s duplicate-key error (PostgreSQL 23505); SQLite transactions are serial')


def delete_then_create(chk, prog):
    def harness(ex, ob):
        db = reldb.sym_db(ex, prog, {'Topic': 2, 'Subscription': 2, 'Message': 1, 'Delivery': 1}, exists=True)
        which = ex.choose(2)
        name = z3.String('name')
        ex.assume(name != '')
        if which == 0:
            act, tx, err = run_action(ex, db, A + 'NewDeleteTopic', [name], '(*' + A + 'DeleteTopic).Execute')
            if err is not None:
                raise PathAbort('nothing to delete')
            p = tr.params(ex, 'CreateTopicParams', Name=name, Labels=None)
            act, tx, err2 = run_action(ex, db, A + 'NewCreateTopic', [p], '(*' + A + 'CreateTopic).Execute')
        else:
            act, tx, err = run_action(ex, db, A + 'NewDeleteSubscription', [name], '(*' + A + 'DeleteSubscription).Execute')
            if err is not None:
                raise PathAbort('nothing to delete')
            tn = z3.String('topicname')
            live_topic = Or(*[And(t.exists, t.isnull('deleted_at'), t.v['name'] == tn) for t in db.t['Topic']])
            ex.assume(live_topic)
            p = tr.params(ex, 'CreateSubscriptionParams', TopicName=tn, Name=name, TTL=10**9, MessageTTL=10**9)
            act, tx, err2 = run_action(ex, db, A + 'NewCreateSubscription', [p], '(*' + A + 'CreateSubscription).Execute')
        ob.verify(ex, 'name-immediately-reusable', err2 is None)
    chk.run('delete-then-create', prog, harness, bounds={'steps': 2}, setup=world.setup)


def sel(T):
    if T.kind in ('create-topic', 'create-sub'):
        return [c12_create]
    if T.kind in ('delete-topic', 'delete-sub'):
        return [c12_delete]
    if T.kind == 'create-snapshot':
        return [c12_create_snapshot]
    return []


if __name__ == '__main__':
    chk = Check('C12')
    prog = load_program()
    chk.repo_hash = prog.repo_hash
    hs = list_handlers(prog)
    for spec in LISTS:
        list_obligation(chk, prog, spec, hs)
    topic_list_obligation(chk, prog, 'ListTopicSubscriptions', 'Subscription', 'Subscriptions', hs)
    get_obligation(chk, prog, 'GetTopic', 'publisher', 'Topic', 'topics', 'Topic', hs)
    get_obligation(chk, prog, 'GetSubscription', 'subscriber', 'Subscription', 'subscriptions', 'Subscription', hs)
    get_obligation(chk, prog, 'GetSnapshot', 'subscriber', 'Snapshot', 'snapshots', 'Snapshot', hs)
    run_property(chk, prog, sel)
    racing_create(chk, prog)
    delete_then_create(chk, prog)
    chk.assumptions += ['stored names are valid resource names (the Create handlers enforce it); LIKE prefix matching is modelled case-sensitively (PostgreSQL meaning); SQLite\'s case-insensitive LIKE is outside the claim',
                        'uuid.String / uuid.Parse are mutually inverse uninterpreted functions']
    chk.finish()
