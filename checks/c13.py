#!/usr/bin/env python3-vt
"""C13: seek restores exactly the requested backlog."""
import sys, os
sys.path.insert(0, os.path.dirname(os.path.dirname(os.path.abspath(__file__))))
from gosym.runner import Check, load_program
from checks.tcheck import run_property
import checks.oracles as O


def sel(T):
    if T.name in ('seek-to-time', 'grpc:Seek(time)'):
        return [O.c13_seek_time]
    if T.name in ('seek-to-snapshot', 'grpc:Seek(snapshot)'):
        return [O.c13_seek_snapshot]
    if T.name == 'create-snapshot':
        return [O.c13_create_snapshot]
    return []


def snapshot_chain(chk, prog):
    """bounded history from an empty subscription: publish, pull, partial ack, snapshot, more acks and publishes, seek to the snapshot:
    afterwards exactly the messages unacknowledged at snapshot time plus everything published since are outstanding"""
    import z3
    from gosym.core import And, Or, Not, Implies, PathAbort, is_sym, zbool
    from gosym import reldb, world, stdlib
    from gosym.world import run_action, A, action_results
    import checks.transitions as tr
    import checks.c05 as c05
    TEMPLATES = [['pub', 'pub', 'pull', 'ack', 'snap', 'ack', 'pub', 'seek'], ['pub', 'pull', 'ack', 'pub', 'snap', 'pull', 'ack', 'seek']]
    if chk.thorough:
        TEMPLATES.append(['pub', 'pub', 'pub', 'pull', 'ack', 'snap', 'pull', 'ack', 'pub', 'seek', 'seek'])
    for tpl in TEMPLATES:
        def harness(ex, ob, tpl=tpl):
            db, t, s = c05.world0(ex, prog)
            trace = c05.Trace(ex, db, s)
            npub, last_pull, at_snap = 0, None, None
            for step in tpl:
                if step == 'pub':
                    if trace.publish('', 'm%d' % npub) is not None:
                        raise PathAbort('publish')
                    npub += 1
                elif step == 'pull':
                    mm = z3.Int('maxm%d' % len(trace.pulls))
                    ex.assume(z3.And(mm >= 1, mm <= 3))
                    err, res = trace.pull(mm)
                    if err is not None:
                        raise PathAbort('pull')
                    last_pull = len(trace.pulls) - 1
                elif step == 'ack':
                    if last_pull is None:
                        continue
                    _, res, _, _ = trace.pulls[last_pull]
                    sub = ex.choose(2 ** len(res))
                    ks = [k for k in range(len(res)) if (sub >> k) & 1]
                    if trace.ack(last_pull, ks) is not None:
                        raise PathAbort('ack')
                elif step == 'snap':
                    k0 = trace.mark()
                    p = tr.params(ex, 'CreateSnapshotParams', SubscriptionName='projects/p/subscriptions/s', Name='projects/p/snapshots/x', Labels=None)
                    act, tx, err = run_action(ex, db, A + 'NewCreateSnapshot', [p], '(*' + A + 'CreateSnapshot).Execute')
                    trace.step_gap(k0)
                    if err is not None:
                        raise PathAbort('snapshot')
                    at_snap = ([r.copy() for r in db.t['Delivery']], stdlib.clock(ex)['nows'][-1])
                elif step == 'seek':
                    k0 = trace.mark()
                    p = tr.params(ex, 'SeekSubscriptionToSnapshotParams', SubscriptionName='projects/p/subscriptions/s', SnapshotName='projects/p/snapshots/x')
                    act, tx, err = run_action(ex, db, A + 'NewSeekSubscriptionToSnapshot', [p], '(*' + A + 'SeekSubscriptionToSnapshot).Execute')
                    trace.step_gap(k0)
                    ob.verify(ex, 'seek-to-snapshot-succeeds', err is None)
                    if err is not None:
                        return
                    now = stdlib.clock(ex)['nows'][-1]
                    rows_then, t_snap = at_snap
                    for i, q in enumerate(db.t['Delivery']):
                        then = rows_then[i] if i < len(rows_then) else None
                        # retained throughout (no retention expiry between snapshot and seek: that case is C14's)
                        if then is not None:
                            retained = then.v['expires_at'] > now
                            want_out = then.isnull('completed_at')
                            def dsc(m, rows_then=rows_then):
                                from gosym import replay as rp_
                                snaprow = db.t['Snapshot'][-1]
                                return {'template': tpl, 'ops': c05.concretize_ops(m, trace, []),
                                        'deliveries_at_snapshot': [{k: rp_.mval(m, r.v[k]) for k in ('id', 'message_id', 'published_at', 'expires_at')} | {'acked': rp_.mval(m, zbool(Not(r.isnull('completed_at'))))} for r in rows_then],
                                        'deliveries_after_seek': [{k: rp_.mval(m, r.v[k]) for k in ('id', 'published_at', 'expires_at')} | {'acked': rp_.mval(m, zbool(Not(r.isnull('completed_at'))))} for r in db.t['Delivery']],
                                        'snapshot': {'acked_messages_before': rp_.mval(m, snaprow.v['acked_messages_before']), 'acked_message_ids': [rp_.mval(m, x) for x in snaprow.v['acked_message_ids']]},
                                        'seek_now': rp_.mval(m, now)}
                            ob.verify(ex, 'state-at-snapshot-restored[%d]' % i, Implies(retained, ex.eq(q.isnull('completed_at'), want_out)), dsc)
                        else:
                            ob.verify(ex, 'published-since-snapshot-stays-outstanding[%d]' % i, Implies(q.v['expires_at'] > now, q.isnull('completed_at')),
                                      lambda m: {'template': tpl})
            ob.reached(ex)
        chk.run('chain[%s]' % ' '.join(tpl), prog, harness, bounds={'template': tpl, 'acks': 'every subset of the last response'}, setup=world.setup, max_paths=200000)


if __name__ == '__main__':
    chk = Check('C13')
    prog = load_program()
    chk.repo_hash = prog.repo_hash
    snapshot_chain(chk, prog)
    run_property(chk, prog, sel, ['snapshot claim is for ordinary deliveries (message published to the subscription\'s own topic, delivery stamped with the message publish time); dead-letter-forwarded deliveries are outside the claim'])
    chk.finish()
