#!/usr/bin/env python3-vt
"""C13: seek restores exactly the requested backlog."""
import sys, os
sys.path.insert(0, os.path.dirname(os.path.dirname(os.path.abspath(__file__))))
from gosym.runner import Check, load_program
from checks.tcheck import run_property
import checks.oracles as O


def sel(T):
    if T.name == 'seek-to-time':
        return [O.c13_seek_time]
    if T.name == 'seek-to-snapshot':
        return [O.c13_seek_snapshot]
    if T.name == 'create-snapshot':
        return [O.c13_create_snapshot]
    return []


if __name__ == '__main__':
    chk = Check('C13')
    prog = load_program()
    run_property(chk, prog, sel, ['snapshot claim is for ordinary deliveries (message published to the subscription\'s own topic, delivery stamped with the message publish time); dead-letter-forwarded deliveries are outside the claim'])
    chk.finish()
