#!/usr/bin/env python3-vt
"""C14: retention, expiry and delivery delay follow the configured durations."""
import sys, os
sys.path.insert(0, os.path.dirname(os.path.dirname(os.path.abspath(__file__))))
from gosym.runner import Check, load_program
from checks.tcheck import run_property
import checks.oracles as O


def sel(T):
    if T.kind == 'pull':
        return [O.c14_pull_refresh]
    if T.kind == 'expire-subs':
        return [O.c14_expire]
    if T.kind == 'publish':
        return [O.c01_publish]
    if T.kind == 'create-sub':
        return [O.c14_create_sub]
    if T.kind in ('seek', 'create-snapshot'):
        # a seek revives with fresh *retention* (message_ttl), not the subscription's expiration ttl
        return [O.resolves_only_live] + ([O.c13_seek_time] if T.name in ('seek-to-time', 'grpc:Seek(time)') else []) + ([O.c13_seek_snapshot] if T.name in ('seek-to-snapshot', 'grpc:Seek(snapshot)') else [])
    if T.kind == 'prune' and getattr(T, 'job', '') in ('prune_expired_deliveries', 'prune_completed_deliveries', 'prune_completed_messages'):
        # the retention sweeps: nothing is removed before its retention (or the age threshold) has run out
        return [lambda ex, S, T_: [x for x in O.c15_prune(ex, S, T_) if x[0].split('[')[0] in
                                   ('only-dead-deliveries-removed', 'age-threshold-respected', 'only-undelivered-old-messages-removed')]]
    return []


if __name__ == '__main__':
    chk = Check('C14')
    prog = load_program()
    run_property(chk, prog, sel)
    chk.finish()
