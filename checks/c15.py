#!/usr/bin/env python3-vt
"""C15: background pruning is invisible to clients and converges."""
import sys, os
sys.path.insert(0, os.path.dirname(os.path.dirname(os.path.abspath(__file__))))
from gosym.runner import Check, load_program
from checks.tcheck import run_property
import checks.oracles as O

def convergence(chk, prog):
    """bounded rounds: from an arbitrary state in which everything has been dead for longer than the age threshold,
    repeated rounds of the six jobs (worst-case order: parents first) reclaim every row"""
    import z3
    from gosym.core import And, Or, Not, PathAbort
    from gosym import reldb, world, stdlib
    from gosym.world import run_action, A
    import checks.transitions as tr
    sizes = {'Topic': 1, 'Subscription': 1, 'Message': 1, 'Delivery': 2}
    JOBS = [('NewPruneDeletedTopics', 'PruneDeletedTopics'), ('NewPruneDeletedSubscriptions', 'PruneDeletedSubscriptions'),
            ('NewPruneCompletedMessages', 'PruneCompletedMessages'), ('NewPruneDeletedSubscriptionDeliveries', 'PruneDeletedSubscriptionDeliveries'),
            ('NewPruneExpiredDeliveries', 'PruneExpiredDeliveries'), ('NewPruneCompletedDeliveries', 'PruneCompletedDeliveries')]

    def harness(ex, ob):
        db = reldb.sym_db(ex, prog, sizes, exists=None)
        age = z3.Int('min_age')
        ex.assume(z3.And(age >= 0, age <= 10**15))
        t0 = stdlib.time_now(ex, [], '')
        old = t0 - age - 60 * 10**9
        for t in db.t['Topic']:
            ex.assume(z3.Implies(t.exists, And(Not(t.isnull('deleted_at')), t.v['deleted_at'] <= old)))
        for s in db.t['Subscription']:
            ex.assume(z3.Implies(s.exists, And(Not(s.isnull('deleted_at')), s.v['deleted_at'] <= old)))
        for m in db.t['Message']:
            ex.assume(z3.Implies(m.exists, m.v['published_at'] <= old))
        for d in db.t['Delivery']:
            ex.assume(z3.Implies(d.exists, Or(And(Not(d.isnull('completed_at')), d.v['completed_at'] <= old), d.v['expires_at'] < old)))
        order = JOBS if ex.choose(2) == 0 else list(reversed(JOBS))
        errors = 0
        for rnd in range(4):
            for ctor, typ in order:
                p = tr.params(ex, 'PruneCommonParams', MinAge=age, MaxDelete=100)
                snap = db.snapshot()
                act, tx, err = run_action(ex, db, A + ctor, [p], '(*' + A + typ + ').Execute')
                if err is not None:
                    # a job that hits a foreign key fails as a whole and changes nothing (its transaction is rolled back)
                    db.restore(snap)
                    errors += 1
        left = Or(*[r.exists for e in reldb.ENTITIES for r in db.t[e]])
        ob.verify(ex, 'four-rounds-reclaim-everything-dead', Not(left),
                  lambda m: {'order': [t for _, t in order], 'job_errors': errors})
    chk.run('convergence:rounds-reclaim-all', prog, harness, bounds=dict(sizes, rounds=4, orders='children-first and parents-first'), setup=world.setup, max_paths=300000)
    chk.assumptions.append('convergence is decided for 4 rounds in two fixed job orders (children first / parents first) on tables of 1 topic, 1 subscription, 1 message, 2 deliveries; snapshots are outside (nothing prunes them; DeleteTopic removes a topic\'s snapshots)')


if __name__ == '__main__':
    chk = Check('C15')
    prog = load_program()
    run_property(chk, prog, lambda T: ([O.c15_prune, O.c01_frame] + ([O.c14_expire] if T.kind == 'expire-subs' else [])) if T.kind in ('prune', 'expire-subs') else [])
    convergence(chk, prog)
    chk.finish()
