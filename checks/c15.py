#!/usr/bin/env python3-vt
"""C15: background pruning is invisible to clients and converges."""
import sys, os
sys.path.insert(0, os.path.dirname(os.path.dirname(os.path.abspath(__file__))))
from gosym.runner import Check, load_program
from checks.tcheck import run_property
import checks.oracles as O

if __name__ == '__main__':
    chk = Check('C15')
    prog = load_program()
    run_property(chk, prog, lambda T: [O.c15_prune, O.c01_frame] if T.kind in ('prune', 'expire-subs') else [])
    chk.finish()
