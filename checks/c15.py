#!/usr/bin/env python3-vt
"""C15: background pruning is invisible to clients and converges."""
import sys, os
sys.path.insert(0, os.path.dirname(os.path.dirname(os.path.abspath(__file__))))
from gosym.runner import Check, load_program
from checks.tcheck import run_property
import checks.oracles as O
from gosym import replay

OPNAME = {'PruneDeletedTopics': 'prune_deleted_topics', 'PruneDeletedSubscriptions': 'prune_deleted_subscriptions', 'PruneCompletedMessages': 'prune_completed_messages',
          'PruneDeletedSubscriptionDeliveries': 'prune_deleted_subscription_deliveries', 'PruneExpiredDeliveries': 'prune_expired_deliveries',
          'PruneCompletedDeliveries': 'prune_completed_deliveries'}


def rounds_replay(ob, db, init, t0, age, order, must_go, label):
    """replay of a convergence counterexample: the initial rows, four rounds of the real jobs in the given order, then: is a row that
    had to be reclaimed (per the model's initial state) still there?"""
    from gosym import replay

    def rp(m, desc):
        rows = replay.rows_from_model(m, db.schema, init)
        a = replay.mval(m, age)
        ops = [{'op': OPNAME[typ], 'min_age': str(a), 'max_delete': 100} for _ in range(4) for _, typ in order]
        scn = {'base_now': str(replay.mval(m, t0)), 'rows': rows, 'ops': ops}
        out = replay.run_scenarios([scn])[0]
        path = replay.save_scenario('C15', label, scn, desc)
        if 'error' in out:
            raise RuntimeError(out['error'][-400:])
        left = False
        for e, r0, rec in must_go:
            if replay.mval(m, zb(rec)) is True:
                rid = replay.uuid_str(replay.mval(m, r0.v['id']))
                left = left or any(x['id'] == rid for x in out['post'].get(e) or [])
        return left, path
    return rp


def zb(x):
    import z3
    return x if not isinstance(x, bool) else z3.BoolVal(x)


def convergence(chk, prog):
    """bounded rounds: from an arbitrary state in which everything has been dead for longer than the age threshold,
    repeated rounds of the six jobs (worst-case order: parents first) reclaim every row"""
    import z3
    from gosym.core import And, Or, Not, PathAbort
    from gosym import reldb, world, stdlib
    from gosym.world import run_action, A
    import checks.transitions as tr
    sizes = {'Topic': 1, 'Subscription': 1, 'Message': 1, 'Delivery': 2}
    JOBS = [('NewPruneDeletedTopics', 'PruneDeletedTopics'), ('NewPruneDeletedSubscriptions', 'PruneDeletedSubscriptions'),
            ('NewPruneCompletedMessages', 'PruneCompletedMessages'), ('NewPruneDeletedSubscriptionDeliveries', 'PruneDeletedSubscriptionDeliveries'),
            ('NewPruneExpiredDeliveries', 'PruneExpiredDeliveries'), ('NewPruneCompletedDeliveries', 'PruneCompletedDeliveries')]

    def harness(ex, ob):
        db = reldb.sym_db(ex, prog, sizes, exists=None)
        age = z3.Int('min_age')
        ex.assume(z3.And(age >= 0, age <= 10**15))
        t0 = stdlib.time_now(ex, [], '')
        old = t0 - age - 60 * 10**9
        for t in db.t['Topic']:
            ex.assume(z3.Implies(t.exists, And(Not(t.isnull('deleted_at')), t.v['deleted_at'] <= old)))
        for s in db.t['Subscription']:
            ex.assume(z3.Implies(s.exists, And(Not(s.isnull('deleted_at')), s.v['deleted_at'] <= old)))
        for m in db.t['Message']:
            ex.assume(z3.Implies(m.exists, m.v['published_at'] <= old))
        for d in db.t['Delivery']:
            ex.assume(z3.Implies(d.exists, Or(And(Not(d.isnull('completed_at')), d.v['completed_at'] <= old), d.v['expires_at'] < old)))
        order = JOBS if ex.choose(2) == 0 else list(reversed(JOBS))
        errors = 0
        init = db.snapshot()
        for rnd in range(4):
            for ctor, typ in order:
                p = tr.params(ex, 'PruneCommonParams', MinAge=age, MaxDelete=100)
                snap = db.snapshot()
                act, tx, err = run_action(ex, db, A + ctor, [p], '(*' + A + typ + ').Execute')
                if err is not None:
                    # a job that hits a foreign key fails as a whole and changes nothing (its transaction is rolled back)
                    db.restore(snap)
                    errors += 1
        left = Or(*[r.exists for e in reldb.ENTITIES for r in db.t[e]])
        must_go = [(e, r0, r0.exists) for e in reldb.ENTITIES for r0 in init[e]]
        ob.verify(ex, 'four-rounds-reclaim-everything-dead', Not(left),
                  lambda m: {'order': [t for _, t in order], 'job_errors': errors},
                  replay=rounds_replay(ob, db, init, t0, age, order, must_go, 'convergence-all-dead'))
    chk.run('convergence:rounds-reclaim-all', prog, harness, bounds=dict(sizes, rounds=4, orders='children-first and parents-first'), setup=world.setup, max_paths=300000)
    chk.assumptions.append('convergence is decided for 4 rounds in two fixed job orders (children first / parents first) on tables of 1 topic, 1 subscription, 1 message, 2 deliveries; snapshots are outside (nothing prunes them; DeleteTopic removes a topic\'s snapshots)')


def convergence_mixed(chk, prog):
    """dead rows next to live ones: from an arbitrary state in which every row is either live or dead for longer than the age
    threshold, four rounds of the jobs reclaim every row that is reclaimable (dead, and everything that refers to it reclaimable) -
    a job that keeps failing on a row it should not have selected would leave the other dead rows of its batch behind"""
    import z3
    from gosym.core import And, Or, Not, Implies
    from gosym import reldb, world, stdlib
    from gosym.world import run_action, A
    import checks.transitions as tr
    sizes = {'Topic': 2, 'Subscription': 1, 'Message': 1, 'Delivery': 1} if not chk.thorough else {'Topic': 2, 'Subscription': 2, 'Message': 1, 'Delivery': 2}
    JOBS = [('NewPruneDeletedTopics', 'PruneDeletedTopics'), ('NewPruneDeletedSubscriptions', 'PruneDeletedSubscriptions'),
            ('NewPruneCompletedMessages', 'PruneCompletedMessages'), ('NewPruneDeletedSubscriptionDeliveries', 'PruneDeletedSubscriptionDeliveries'),
            ('NewPruneExpiredDeliveries', 'PruneExpiredDeliveries'), ('NewPruneCompletedDeliveries', 'PruneCompletedDeliveries')]

    def harness(ex, ob):
        db = reldb.sym_db(ex, prog, sizes, exists=None)
        age = z3.Int('min_age')
        ex.assume(z3.And(age >= 0, age <= 10**15))
        t0 = stdlib.time_now(ex, [], '')
        old = t0 - age - 60 * 10**9
        far = t0 + 3600 * 10**9
        T, S, M, D = db.t['Topic'], db.t['Subscription'], db.t['Message'], db.t['Delivery']
        tdead = [And(Not(t.isnull('deleted_at')), t.v['deleted_at'] <= old) for t in T]
        sdead = [And(Not(s.isnull('deleted_at')), s.v['deleted_at'] <= old) for s in S]
        ddead = [Or(And(Not(d.isnull('completed_at')), d.v['completed_at'] <= old), d.v['expires_at'] < old) for d in D]
        for t, dead in zip(T, tdead):
            ex.assume(Implies(t.exists, Or(dead, t.isnull('deleted_at'))))
        for s_, dead in zip(S, sdead):
            ex.assume(Implies(s_.exists, Or(dead, s_.isnull('deleted_at'))))
        for m in M:
            ex.assume(Implies(m.exists, m.v['published_at'] <= old))
        for d, dead in zip(D, ddead):
            ex.assume(Implies(d.exists, Or(dead, And(d.isnull('completed_at'), d.v['expires_at'] > far))))
        # what must be gone in the end (least fixpoint over the reference graph, computed on the initial state)
        d_rec = [And(d.exists, Or(dead, *[And(s_.exists, ex.eq(s_.v['id'], d.v['subscription_id']), sd) for s_, sd in zip(S, sdead)])) for d, dead in zip(D, ddead)]
        m_rec = [And(m.exists, *[Implies(And(d.exists, ex.eq(d.v['message_id'], m.v['id'])), dr) for d, dr in zip(D, d_rec)]) for m in M]
        s_rec = [And(s_.exists, sd, *[Implies(And(d.exists, ex.eq(d.v['subscription_id'], s_.v['id'])), dr) for d, dr in zip(D, d_rec)]) for s_, sd in zip(S, sdead)]
        t_rec = [And(t.exists, td, *([Implies(And(s_.exists, ex.eq(s_.v['topic_id'], t.v['id'])), sr) for s_, sr in zip(S, s_rec)] +
                                     [Implies(And(m.exists, ex.eq(m.v['topic_id'], t.v['id'])), mr) for m, mr in zip(M, m_rec)])) for t, td in zip(T, tdead)]
        order = JOBS if ex.choose(2) == 0 else list(reversed(JOBS))
        errors = 0
        init = db.snapshot()
        for rnd in range(4):
            for ctor, typ in order:
                p = tr.params(ex, 'PruneCommonParams', MinAge=age, MaxDelete=100)
                snap = db.snapshot()
                act, tx, err = run_action(ex, db, A + ctor, [p], '(*' + A + typ + ').Execute')
                if err is not None:
                    db.restore(snap)
                    errors += 1
        nows = stdlib.clock(ex)['nows']
        ex.assume(nows[-1] - t0 < 60 * 10**9)      # the rounds take less than a minute of clock time (nothing live dies meanwhile)
        desc = lambda m: {'order': [t for _, t in order], 'job_errors': errors}
        for e, recs in (('Topic', t_rec), ('Subscription', s_rec), ('Message', m_rec), ('Delivery', d_rec)):
            for i, rec in enumerate(recs):
                ob.verify(ex, 'reclaimable-%s-is-reclaimed[%d]' % (e.lower(), i), Implies(rec, Not(db.t[e][i].exists)), desc,
                          replay=rounds_replay(ob, db, init, t0, age, order, [(e, init[e][i], rec)], 'convergence-mixed-%s%d' % (e.lower(), i)))
    chk.run('convergence:dead-rows-next-to-live-ones', prog, harness, bounds=dict(sizes, rounds=4, orders='children-first and parents-first'),
            setup=world.setup, max_paths=300000)


def convergence_reused_actions(chk, prog):
    """the background services build every job's action object once and execute that same object round after round: rows that die after
    the first round (dead for longer than the threshold only at a later instant) are reclaimed by the later rounds of the same objects"""
    import z3
    from gosym.core import And, Or, Not, Implies
    from gosym import reldb, world, stdlib
    from gosym.world import A
    from gosym.stdlib import new_context
    import checks.transitions as tr
    sizes = {'Topic': 1, 'Subscription': 1, 'Message': 1, 'Delivery': 1}
    JOBS = [('NewPruneCompletedDeliveries', 'PruneCompletedDeliveries'), ('NewPruneExpiredDeliveries', 'PruneExpiredDeliveries'),
            ('NewPruneDeletedSubscriptionDeliveries', 'PruneDeletedSubscriptionDeliveries'), ('NewPruneCompletedMessages', 'PruneCompletedMessages'),
            ('NewPruneDeletedSubscriptions', 'PruneDeletedSubscriptions'), ('NewPruneDeletedTopics', 'PruneDeletedTopics')]

    def harness(ex, ob):
        db = reldb.sym_db(ex, prog, sizes, exists=None)
        age = z3.Int('min_age')
        ex.assume(z3.And(age >= 0, age <= 10**15))
        p = tr.params(ex, 'PruneCommonParams', MinAge=age, MaxDelete=100)
        acts = [(typ, ex.call_named(A + ctor, [p])) for ctor, typ in JOBS]
        init = db.snapshot()
        errors = [0]

        def round_():
            for typ, act in acts:
                snap = db.snapshot()
                tx = reldb.begin_tx(ex, db)
                err = ex.call_named('(*' + A + typ + ').Execute', [act, new_context(ex), tx])
                if err is not None:
                    db.restore(snap)
                    errors[0] += 1
        t0 = stdlib.time_now(ex, [], '')
        round_()
        t1 = stdlib.time_now(ex, [], '')         # an arbitrary later instant: what is dead "now" need not have been dead in round one
        old = t1 - age - 2 * 10**9
        far = t1 + 3600 * 10**9
        T, S, M, D = init['Topic'], init['Subscription'], init['Message'], init['Delivery']
        tdead = [And(Not(t.isnull('deleted_at')), t.v['deleted_at'] <= old) for t in T]
        sdead = [And(Not(s_.isnull('deleted_at')), s_.v['deleted_at'] <= old) for s_ in S]
        ddead = [Or(And(Not(d.isnull('completed_at')), d.v['completed_at'] <= old), d.v['expires_at'] < old) for d in D]
        for t, dead in zip(T, tdead):
            ex.assume(Implies(t.exists, Or(dead, t.isnull('deleted_at'))))
        for s_, dead in zip(S, sdead):
            ex.assume(Implies(s_.exists, Or(dead, s_.isnull('deleted_at'))))
        for m in M:
            ex.assume(Implies(m.exists, m.v['published_at'] <= old))
        for d, dead in zip(D, ddead):
            ex.assume(Implies(d.exists, Or(dead, And(d.isnull('completed_at'), d.v['expires_at'] > far))))
        d_rec = [And(d.exists, Or(dead, *[And(s_.exists, ex.eq(s_.v['id'], d.v['subscription_id']), sd) for s_, sd in zip(S, sdead)])) for d, dead in zip(D, ddead)]
        m_rec = [And(m.exists, *[Implies(And(d.exists, ex.eq(d.v['message_id'], m.v['id'])), dr) for d, dr in zip(D, d_rec)]) for m in M]
        s_rec = [And(s_.exists, sd, *[Implies(And(d.exists, ex.eq(d.v['subscription_id'], s_.v['id'])), dr) for d, dr in zip(D, d_rec)]) for s_, sd in zip(S, sdead)]
        t_rec = [And(t.exists, td, *([Implies(And(s_.exists, ex.eq(s_.v['topic_id'], t.v['id'])), sr) for s_, sr in zip(S, s_rec)] +
                                     [Implies(And(m.exists, ex.eq(m.v['topic_id'], t.v['id'])), mr) for m, mr in zip(M, m_rec)])) for t, td in zip(T, tdead)]
        for _ in range(3):
            round_()
        nows = stdlib.clock(ex)['nows']
        ex.assume(nows[-1] - t1 < 2 * 10**9)        # the later rounds take under two seconds of clock time (nothing live dies meanwhile)
        # replayable counterexamples: no stored instant within a minute of either cutoff, the rounds well apart
        stamps = [r.v[c] for e_, cs in (('Topic', ['deleted_at']), ('Subscription', ['deleted_at']), ('Message', ['published_at']), ('Delivery', ['completed_at', 'expires_at']))
                  for r in init[e_] for c in cs]
        ex.env['small_model'] = [z3.BoolVal(True)]
        # (a few seconds between the first and the later rounds, so that the replay can really wait instead of moving the data in time)
        ex.env['replay_margins'] = lambda ex_, gap=None: [t1 - t0 >= 4 * 10**9, t1 - t0 <= 6 * 10**9] + \
            [z3.Or(v <= c - 15 * 10**8, v >= c + 15 * 10**8) for v in stamps for c in (t0 - age, t1 - age, t0, t1)]
        desc = lambda m: {'job_errors': errors[0], 'first round at': replay.mval(m, t0), 'later rounds from': replay.mval(m, t1)}

        def mk_rp(e, i, rec):
            def rp(m, dsc):
                rows = replay.rows_from_model(m, db.schema, init)
                a = replay.mval(m, age)
                b0, b1 = replay.mval(m, t0), replay.mval(m, t1)
                scn = {'base_now': str(b0), 'rows': rows,
                       'ops': [{'op': 'prune_rounds_reused', 'jobs': [OPNAME[typ] for typ, _ in acts], 'rounds': 3, 'min_age': str(a), 'max_delete': 100,
                                'shift_after_first': str(max(0, b1 - b0))}]}
                out = replay.run_scenarios([scn])[0]
                path = replay.save_scenario('C15', 'reused-actions-%s%d' % (e.lower(), i), scn, dsc)
                if 'error' in out:
                    raise RuntimeError(out['error'][-400:])
                if replay.mval(m, zb(rec)) is not True:
                    return False, path
                rid = replay.uuid_str(replay.mval(m, init[e][i].v['id']))
                return any(x['id'] == rid for x in out['post'].get(e) or []), path
            return rp
        for e, recs in (('Topic', t_rec), ('Subscription', s_rec), ('Message', m_rec), ('Delivery', d_rec)):
            for i, rec in enumerate(recs):
                ob.verify(ex, 'late-dead-%s-is-reclaimed-by-the-same-action-objects[%d]' % (e.lower(), i), Implies(rec, Not(db.t[e][i].exists)), desc, replay=mk_rp(e, i, rec))
    chk.run('convergence:same-action-objects-every-round', prog, harness, bounds=dict(sizes, rounds='1 + 3', order='children first'), setup=world.setup, max_paths=300000)


if __name__ == '__main__':
    chk = Check('C15')
    prog = load_program()
    run_property(chk, prog, lambda T: ([O.c15_prune, O.c01_frame] + ([O.c14_expire] if T.kind == 'expire-subs' else [])) if T.kind in ('prune', 'expire-subs') else [])
    convergence(chk, prog)
    convergence_mixed(chk, prog)
    convergence_reused_actions(chk, prog)
    chk.finish()
