#!/usr/bin/env python3-vt
"""C16: no request can crash the server; rejected requests change nothing."""
import sys, os, json
sys.path.insert(0, os.path.dirname(os.path.dirname(os.path.abspath(__file__))))
import z3
from gosym.core import *
from gosym.runner import Check, load_program
from gosym import reldb, world, stdlib, replay, grpcmodel
from gosym.world import *
from gosym.protomodel import sym_message
from checks.handlers import *

GRPCPKG = 'go.6river.tech/mmmbbb/grpc.'
# request fields holding resource names -> kind (None: the kind of the request's own resource)
NAME_FIELDS = {'Name': None, 'Topic': 'topics', 'Subscription': 'subscriptions', 'Snapshot': 'snapshots', 'DeadLetterTopic': 'topics', 'Project': 'project'}


def interceptors(prog):
    """unary interceptors of this code base installed by (*grpcServer).Initialize that are plain functions (e.g. a recovery interceptor)"""
    init = prog.funcs.get('(*' + GRPCPKG + 'grpcServer).Initialize')
    found = []
    if not init:
        return found
    for b in init.get('blocks', []):
        for ins in b['ins']:
            for v in list(ins.values()):
                cands = v if isinstance(v, list) else [v]
                for o in cands:
                    if isinstance(o, dict) and 'fn' in o and o['fn'].startswith(GRPCPKG):
                        f = prog.funcs.get(o['fn'])
                        if f and len(f.get('params', [])) == 4 and 'UnaryServerInfo' in f['params'][2]['t'] and o['fn'] not in found:
                            found.append(o['fn'])
    return found


def main():
    chk = Check('C16')
    prog = load_program()
    chk.repo_hash = prog.repo_hash
    hs = list_handlers(prog)
    chain = interceptors(prog)
    only = [a[5:] for a in sys.argv[1:] if a.startswith('only=')]
    sizes = {'Topic': 1, 'Subscription': 1, 'Message': 1, 'Delivery': 1, 'Snapshot': 1}
    chk.bounds = {'tables': sizes, 'request': 'every field symbolic: strings arbitrary, integers over their full width, nested messages nil or present (depth 2), repeated fields 0..2, oneofs over their cases',
                  'maps iterated by the code (push-config attributes)': '0..2 entries, arbitrary keys and values',
                  'interceptors honoured': chain}
    for h in hs:
        if only and h['method'] not in only:
            continue

        def harness(ex, ob, h=h):
            db = reldb.sym_db(ex, prog, sizes, exists=True)
            # stored rows carry valid names; name-like request fields range over a boundary vocabulary (valid+known, valid+unknown,
            # wrong kind, empty, malformed); every other string stays symbolic
            for e_, kind in (('Topic', 'topics'), ('Subscription', 'subscriptions'), ('Snapshot', 'snapshots')):
                for r in db.t[e_]:
                    r.v['name'] = 'projects/p/%s/r%d' % (kind, r.slot)

            def name_hook(ex_, key, fname, ft):
                if ft != 'string' or fname not in NAME_FIELDS:
                    return None
                kind = NAME_FIELDS[fname] or {'Topic': 'topics', 'Subscription': 'subscriptions', 'Snapshot': 'snapshots'}.get(h['req_type'].split('.')[-1], 'topics')
                vocab = ['projects/p/%s/r0' % kind, 'projects/p/%s/unknown' % kind, 'projects/p/%s/r0' % ('topics' if kind != 'topics' else 'subscriptions'),
                         '', 'projects//%s/x' % kind, 'projects/p'] if kind != 'project' else ['projects/p', 'projects/q', '', 'p']
                return (vocab[ex_.choose(len(vocab))],)
            req = sym_message(ex, h['req_type'], 'req', 2, 2, nil_ok=False, overrides={'#hook': name_hook})
            pre = db.snapshot()

            def describe(m):
                return {'service': h['service'], 'method': h['method'], 'request': req_to_json(ex, m, req)}

            def rp(m, desc):
                rows = replay.rows_from_model(m, db.schema, pre)
                # over the wire, through the real server and its interceptor chain: a panic that is not recovered kills the process
                scn = {'base_now': str(2 * 10**18), 'rows': rows, 'wire': True,
                       'ops': [{'op': 'grpc', 'service': h['service'], 'method': h['method'], 'request': desc['request'], 'timeout_ms': 2000}]}
                out = replay.run_scenarios([scn])[0]
                path = replay.save_scenario('C16', h['method'] + '-' + ob.cur_label, scn, desc)
                if 'error' in out:
                    if ob.cur_label.startswith('no-panic') and ('panic:' in out['error'] or 'goroutine ' in out['error']):
                        return True, path
                    raise RuntimeError(out['error'][-600:])
                r = out['results'][0]
                ob.last_replay = r
                if ob.cur_label.startswith('no-panic'):
                    return ('panic' in r), path
                if ob.cur_label.startswith('always-a-status'):
                    return (r.get('code') == 'NOT-A-STATUS'), path
                # error => unchanged
                if r.get('code') in (None, 'OK'):
                    return False, path
                pre_d, post_d = out['pre'], out['post']
                if h['method'] in ('Pull',):
                    for x in (pre_d.get('Subscription') or []) + (post_d.get('Subscription') or []):
                        x.pop('expires_at', None)
                return (json.dumps(pre_d, sort_keys=True) != json.dumps(post_d, sort_keys=True)), path
            try:
                if chain:
                    client = reldb.make_client(ex, db)
                    srv = ex.new_ptr(ex.new_struct(SVC + SERVERS[h['service']], client=client))
                    ctx = stdlib.new_context(ex)

                    def inner(ex_, a):
                        return ex_.call_named(h['fn'], [srv, a[0], a[1].v if isinstance(a[1], Iface) else a[1]])
                    handler = PyFunc(inner, 'handler')
                    INFO = 'google.golang.org/grpc.UnaryServerInfo'
                    info = ex.new_ptr(ex.new_struct(INFO, FullMethod='/google.pubsub.v1.%s/%s' % (h['service'].capitalize(), h['method']))) if INFO in ex.prog.types else None
                    for fn in reversed(chain):
                        handler = (lambda fn, nxt: PyFunc(lambda ex_, a: ex_.call_named(fn, [a[0], a[1], info, nxt]), 'interceptor'))(fn, handler)
                    resp, err = ex.call_value(handler, [ctx, Iface('*' + h['req_type'], req)])
                    code = 0
                    if err is not None:
                        v = err.v if isinstance(err, Iface) else err
                        code = v.code if isinstance(v, grpcmodel.StatusError) else -1
                else:
                    resp, err, code = call_handler(ex, db, h, req)
            except GoPanic as p:
                ob.cur_label = 'no-panic'
                ob.verify(ex, 'no-panic: ' + panic_site(p), False, describe, replay=rp, known=known_pred)
                return
            ob.reached(ex)
            if err is not None:
                ob.cur_label = 'always-a-status'
                ob.verify(ex, 'always-a-status', code != -1, describe, replay=rp)
                ob.cur_label = 'error-changes-nothing'
                for e in reldb.ENTITIES:
                    same = []
                    for i, r in enumerate(pre[e]):
                        q = db.t[e][i]
                        exc = ('expires_at',) if (e == 'Subscription' and h['method'] == 'Pull') else ()
                        same.append(row_same(ex, r, q, except_cols=exc))
                    same.append(len(db.t[e]) == len(pre[e]))
                    ob.verify(ex, 'error-changes-nothing:' + e, And(*same), describe, replay=rp)
        ob = chk.run(h['method'], prog, harness, bounds={'request type': h['req_type']}, setup=world.setup, max_paths=20000)
    # ---- streaming pull: the per-request adapter runs on the streamer's reader goroutine, outside every interceptor
    def stream_harness(ex, ob):
        W = SVC + 'streamWrapper'
        REQ = PB + 'StreamingPullRequest'
        req = sym_message(ex, REQ, 'req', 1, 3, nil_ok=False)
        first = ex.choose(2) == 1
        w = ex.new_ptr(ex.new_struct(W, initial=req if first else None))

        def describe(m):
            return {'service': 'subscriber', 'method': 'StreamingPull (request adapter)', 'first_request': first, 'request': req_to_json(ex, m, req)}
        try:
            r, err = ex.call_named('(*' + W + ').adaptIn', [w, req])
        except GoPanic as p:
            ob.verify(ex, 'no-panic: ' + panic_site(p), False, describe)
            return
        ob.reached(ex)
        if err is None:
            fc = ex.getf(r, 'FlowControl')
            if fc is not None:
                ob.verify(ex, 'stream-flow-control-positive', And(ex.getf(fc, 'MaxMessages') >= 1, ex.getf(fc, 'MaxBytes') >= 1), describe)
            ob.verify(ex, 'flow-control-only-from-the-opening-request', (fc is not None) == first, describe)
            # nothing the client sent is dropped: every ack id and every deadline id of the request is handed on (C03/C04 at the stream entry)
            rq = req.get()
            n_ack, n_mod = len(ex.getf(rq, 'AckIds').items()), len(ex.getf(rq, 'ModifyDeadlineAckIds').items())
            ob.verify(ex, 'every-ack-id-of-the-request-is-applied', len(ex.getf(r, 'Ack').items()) == n_ack, describe)
            ob.verify(ex, 'every-deadline-id-of-the-request-is-applied', len(ex.getf(r, 'Delay').items()) == n_mod, describe)
    if not only or 'StreamingPull' in only:
        chk.run('StreamingPull:request-adapter', prog, stream_harness, bounds={'repeated fields': '0..3 entries each', 'integers': 'full width'},
                setup=world.setup, max_paths=50000)
    if not only:
        pusher_chain(chk, prog)
    chk.assumptions += ['handlers are entered as grpc-go enters them: non-nil request message; wire decoding and grpc-go itself are outside the claim',
                        'a blocked Pull is released by its own timeout (the waiting itself is C10)',
                        'interceptors of this code base that are plain functions in (*grpcServer).Initialize are executed around the handler (logging / prometheus / fault injection are pass-through)']
    chk.finish()


def pusher_chain(chk, prog):
    """a request that changes a subscription's push configuration, then one round of the background http-pusher service (which runs
    outside every interceptor: a panic there ends the process): whatever the request stored, the round does not panic"""
    HP = SVC + 'httpPusher'
    FM = 'google.golang.org/protobuf/types/known/fieldmaskpb.FieldMask'
    hs = {h['method']: h for h in list_handlers(prog)}
    if HP not in prog.types or ('(*' + HP + ').startPushersOnce') not in prog.funcs:
        chk.inconclusive.append('http pusher service not found (renamed?): background round not checked')
        return
    for method in ('ModifyPushConfig', 'UpdateSubscription', 'CreateSubscription'):
        def harness(ex, ob, method=method):
            db = reldb.sym_db(ex, prog, {'Topic': 1, 'Subscription': 1, 'Message': 0, 'Delivery': 0, 'Snapshot': 0}, exists=True)
            t0, s0 = db.t['Topic'][0], db.t['Subscription'][0]
            t0.v['name'], s0.v['name'] = 'projects/p/topics/r0', 'projects/p/subscriptions/r0'
            # representation invariant of stored push endpoints (what create / update establish): NULL or non-empty
            ex.assume(Or(s0.isnull('push_endpoint'), Not(ex.eq(s0.v['push_endpoint'], ''))))
            has_cfg = ex.choose(2) == 1
            ep = z3.String('req.push_endpoint')
            cfg = ex.new_ptr(ex.new_struct(PB + 'PushConfig', PushEndpoint=ep, Attributes=None)) if has_cfg else None
            if method == 'ModifyPushConfig':
                req = ex.new_ptr(ex.new_struct(PB + 'ModifyPushConfigRequest', Subscription='projects/p/subscriptions/r0', PushConfig=cfg))
                rj = lambda m: {'subscription': 'projects/p/subscriptions/r0', **({'pushConfig': {'pushEndpoint': replay.mval(m, ep)}} if has_cfg else {})}
            elif method == 'UpdateSubscription':
                sub = ex.new_ptr(ex.new_struct(PB + 'Subscription', Name='projects/p/subscriptions/r0', PushConfig=cfg))
                req = ex.new_ptr(ex.new_struct(PB + 'UpdateSubscriptionRequest', Subscription=sub, UpdateMask=ex.new_ptr(ex.new_struct(FM, Paths=ex.mkslice(['push_config'])))))
                rj = lambda m: {'subscription': {'name': 'projects/p/subscriptions/r0', **({'pushConfig': {'pushEndpoint': replay.mval(m, ep)}} if has_cfg else {})}, 'updateMask': 'pushConfig'}
            else:
                req = ex.new_ptr(ex.new_struct(PB + 'Subscription', Name='projects/p/subscriptions/new', Topic='projects/p/topics/r0', PushConfig=cfg))
                rj = lambda m: {'name': 'projects/p/subscriptions/new', 'topic': 'projects/p/topics/r0', **({'pushConfig': {'pushEndpoint': replay.mval(m, ep)}} if has_cfg else {})}
            pre = db.snapshot()

            def describe(m):
                return {'service': 'subscriber', 'method': method, 'request': rj(m)}

            def rp(m, desc):
                rows = replay.rows_from_model(m, db.schema, pre)
                scn = {'base_now': str(2 * 10**18), 'rows': rows,
                       'ops': [{'op': 'grpc', 'service': 'subscriber', 'method': method, 'request': desc['request'], 'timeout_ms': 2000},
                               {'op': 'http_pusher_round'}]}
                out = replay.run_scenarios([scn])[0]
                path = replay.save_scenario('C16', 'pusher-round-after-' + method, scn, desc)
                if 'error' in out:
                    return ('panic:' in out['error'] or 'goroutine ' in out['error']), path
                return ('panic' in out['results'][-1]), path
            try:
                call_handler(ex, db, hs[method], req)
            except GoPanic:
                raise PathAbort('the handler itself panics: reported by the handler obligation')
            ex.intrinsics = dict(ex.intrinsics)
            ex.intrinsics[SVC + 'monitorPusher'] = lambda ex_, a, name: ex_.zero(SVC + 'monitoredPusher')
            hp = ex.new_ptr(ex.new_struct(HP, client=reldb.make_client(ex, db), logger=Opaque('logger'), pushers=MapObj()))
            try:
                ex.call_named('(*' + HP + ').startPushersOnce', [hp, stdlib.new_context(ex)])
            except GoPanic as p:
                ob.verify(ex, 'pusher-round-does-not-panic: ' + panic_site(p), False, describe, replay=rp)
                return
            ob.reached(ex)
            # and the request leaves the stored endpoint NULL or non-empty (keeps the invariant the round relies on inductive)
            for r in db.t['Subscription']:
                ob.verify(ex, 'stored-push-endpoint-is-null-or-non-empty', Or(r.isnull('push_endpoint'), Not(ex.eq(r.v['push_endpoint'], ''))), describe)
        chk.run('chain:%s,http-pusher-round' % method, prog, harness, bounds={'request': 'push config absent or present with an arbitrary endpoint string', 'steps': 2},
                setup=world.setup, max_paths=20000)


def panic_site(p):
    w = (p.where or '').split('/')[-1]
    return w.split(':')[0]


def known_pred(pred, m, desc):
    req = desc.get('request') or {}
    return KNOWN.get(pred, lambda r: False)(req)


KNOWN = {}

if __name__ == '__main__':
    main()
