#!/usr/bin/env python3-vt
"""C17: configuration round-trips: what was set is what Get returns; updates touch exactly the masked fields; durations survive."""
import sys, os
sys.path.insert(0, os.path.dirname(os.path.dirname(os.path.abspath(__file__))))
import z3
from gosym.core import *
from gosym.runner import Check, load_program
from gosym import reldb, world, stdlib, replay
from gosym.world import *
from checks.handlers import *

SEC = 10**9
DUR = 'google.golang.org/protobuf/types/known/durationpb.Duration'
FM = 'google.golang.org/protobuf/types/known/fieldmaskpb.FieldMask'
DEFAULT_TTL = None          # read from the program's constants at run time
MAXSEC = 9 * 10**9          # ~285 years: inside time.Duration's int64 nanosecond range


def sym_duration(ex, tag, nonneg=True):
    """a valid protobuf Duration (same-sign fields, |nanos| < 1e9, |seconds| <= MAXSEC): returns (ptr, total_ns)"""
    s, n = z3.Int(tag + '.seconds'), z3.Int(tag + '.nanos')
    ex.assume(z3.And(s >= (0 if nonneg else -MAXSEC), s <= MAXSEC, n >= (0 if nonneg else -(SEC - 1)), n <= SEC - 1, z3.Or(s == 0, n == 0, (s > 0) == (n > 0))))
    return ex.new_ptr(ex.new_struct(DUR, Seconds=s, Nanos=n)), s * SEC + n


def dur_ns(ex, p):
    """total nanoseconds of a *durationpb.Duration in a response (nil = 0)"""
    if p is None:
        return 0
    v = ex.getf(p, 'Seconds') * SEC + ex.getf(p, 'Nanos')
    if p.nilc is not None:
        return Ite(p.nilc, 0, v)
    return v


def normalized(ex, p):
    s, n = ex.getf(p, 'Seconds'), ex.getf(p, 'Nanos')
    return And(n > -SEC, n < SEC, Or(s == 0, n == 0, (s > 0) == (n > 0)))


def consts(prog):
    k = 'go.6river.tech/mmmbbb/services.'
    return int(prog.consts[k + 'defaultSubscriptionTTL']), int(prog.consts[k + 'defaultSubscriptionMessageTTL']), int(prog.consts[k + 'defaultDeadLetterMaxAttempts'])


def create_then_get(chk, prog):
    hs = list_handlers(prog)
    hc = [x for x in hs if x['method'] == 'CreateSubscription'][0]
    hg = [x for x in hs if x['method'] == 'GetSubscription'][0]
    DTTL, DMTTL, DATT = consts(prog)

    def harness(ex, ob):
        db = reldb.sym_db(ex, prog, {'Topic': 2, 'Subscription': 1, 'Message': 0, 'Delivery': 0}, exists=True)
        for i, t in enumerate(db.t['Topic']):
            t.v['name'] = 'projects/p/topics/r%d' % i
            ex.assume(t.isnull('deleted_at'))
        db.t['Subscription'][0].v['name'] = 'projects/p/subscriptions/old'
        name = 'projects/p/subscriptions/new'
        labels = reldb.sym_value(ex, 'map', 'req.labels')
        flt = z3.String('req.filter')
        ex.assume(Or(flt == '', F_filter_valid()(flt)))          # accepted requests only
        ordered = z3.Bool('req.ordering')
        ttl_p, ttl = sym_duration(ex, 'req.ttl')
        has_exp = (ex.choose(2) == 1) if chk.thorough else True
        ret_p, ret = sym_duration(ex, 'req.retention')
        has_ret = (ex.choose(2) == 1) if chk.thorough else True
        has_retry = ex.choose(2) == 1
        minb_p, minb = sym_duration(ex, 'req.min_backoff')
        maxb_p, maxb = sym_duration(ex, 'req.max_backoff')
        has_dl = ex.choose(2) == 1
        att = z3.Int('req.max_delivery_attempts')
        ex.assume(z3.And(att >= 0, att < 2**31))
        has_push = ex.choose(2) == 1
        endpoint = z3.String('req.push_endpoint')
        fields = dict(Name=name, Topic='projects/p/topics/r0', Labels=labels, Filter=flt, EnableMessageOrdering=ordered)
        if has_exp:
            fields['ExpirationPolicy'] = ex.new_ptr(ex.new_struct(PB + 'ExpirationPolicy', Ttl=ttl_p))
        if has_ret:
            fields['MessageRetentionDuration'] = ret_p
        has_min = has_max = True
        if has_retry:
            which = ex.choose(3)          # both bounds, the minimum only, the maximum only
            has_min, has_max = which != 2, which != 1
            fields['RetryPolicy'] = ex.new_ptr(ex.new_struct(PB + 'RetryPolicy', MinimumBackoff=minb_p if has_min else None, MaximumBackoff=maxb_p if has_max else None))
        if has_dl:
            fields['DeadLetterPolicy'] = ex.new_ptr(ex.new_struct(PB + 'DeadLetterPolicy', DeadLetterTopic='projects/p/topics/r1', MaxDeliveryAttempts=att))
        if has_push:
            fields['PushConfig'] = ex.new_ptr(ex.new_struct(PB + 'PushConfig', PushEndpoint=endpoint))
        req = ex.new_ptr(ex.new_struct(PB + 'Subscription', **fields))
        blocks = dict(exp=has_exp, retention=has_ret, retry=has_retry, retry_min=has_min, retry_max=has_max, dead_letter=has_dl, push=has_push)
        try:
            r1, err, code = call_handler(ex, db, hc, req)
            if err is not None:
                raise PathAbort('request not accepted')
            g = ex.new_ptr(ex.new_struct(PB + 'GetSubscriptionRequest', Subscription=name))
            r2, err2, code2 = call_handler(ex, db, hg, g)
        except GoPanic as p:
            # the response mapping of an accepted configuration panics: the call is answered Internal although the subscription exists
            ob.verify(ex, 'accepted-configuration-is-answered-without-a-panic', False, lambda m: {'optional blocks': blocks, 'panic': str(p)[:200]})
            return
        ob.verify(ex, 'created-subscription-can-be-read-back', err2 is None)
        if err2 is not None:
            return
        want_ttl = Ite(ex.eq(ttl, 0), DTTL, ttl) if has_exp else DTTL
        want_ret = Ite(ex.eq(ret, 0), DMTTL, ret) if has_ret else DMTTL
        d = lambda m: {'model': {str(x): str(m[x]) for x in m.decls() if str(x).startswith('req.')}, 'optional blocks': dict(exp=has_exp, retention=has_ret, retry=has_retry, dead_letter=has_dl, push=has_push)}
        for tag, r in (('create-response', r1), ('get-response', r2)):
            ob.verify(ex, tag + ':name-and-topic', And(ex.eq(ex.getf(r, 'Name'), name), ex.eq(ex.getf(r, 'Topic'), 'projects/p/topics/r0')), d)
            ob.verify(ex, tag + ':labels', val_eq(ex, ex.getf(r, 'Labels'), labels) if isinstance(ex.getf(r, 'Labels'), SymMap) else False, d)
            ob.verify(ex, tag + ':ordering-flag', ex.eq(ex.getf(r, 'EnableMessageOrdering'), ordered), d)
            ob.verify(ex, tag + ':filter', ex.eq(ex.getf(r, 'Filter'), flt), d)
            ob.verify(ex, tag + ':retention-with-default', ex.eq(dur_ns(ex, ex.getf(r, 'MessageRetentionDuration')), want_ret), d)
            ep = ex.getf(r, 'ExpirationPolicy')
            ob.verify(ex, tag + ':expiration-ttl-with-default', ep is not None and ex.eq(dur_ns(ex, ex.getf(ep, 'Ttl')), want_ttl), d)
            ob.verify(ex, tag + ':durations-normalised', And(normalized(ex, ex.getf(r, 'MessageRetentionDuration')), normalized(ex, ex.getf(ep, 'Ttl'))), d)
            rp = ex.getf(r, 'RetryPolicy')
            gmin = dur_ns(ex, ex.getf(rp, 'MinimumBackoff')) if rp is not None else 0
            gmax = dur_ns(ex, ex.getf(rp, 'MaximumBackoff')) if rp is not None else 0
            ob.verify(ex, tag + ':retry-policy', And(ex.eq(gmin, minb if (has_retry and has_min) else 0), ex.eq(gmax, maxb if (has_retry and has_max) else 0)), d)
            dl = ex.getf(r, 'DeadLetterPolicy')
            if has_dl:
                ob.verify(ex, tag + ':dead-letter-policy', dl is not None and And(ex.eq(ex.getf(dl, 'DeadLetterTopic'), 'projects/p/topics/r1'),
                                                                                  ex.eq(ex.getf(dl, 'MaxDeliveryAttempts'), Ite(ex.eq(att, 0), DATT, att))), d)
            else:
                ob.verify(ex, tag + ':no-dead-letter-policy', dl is None, d)
            pc = ex.getf(r, 'PushConfig')
            want_ep = endpoint if has_push else ''
            got_ep = ex.getf(pc, 'PushEndpoint') if pc is not None else ''
            ob.verify(ex, tag + ':push-endpoint', ex.eq(got_ep, want_ep), d)
    chk.run('create-then-get:subscription', prog, harness, bounds={'durations': 'any valid protobuf Duration up to ~285 years at ns resolution', 'optional blocks': 'retry/dead-letter/push present or absent (8 combinations); expiration/retention present with zero = default (absent too on thorough)'},
            setup=world.setup, max_paths=100000)

    ht = [x for x in hs if x['method'] == 'CreateTopic'][0]
    hgt = [x for x in hs if x['method'] == 'GetTopic'][0]

    def harness_t(ex, ob):
        db = reldb.sym_db(ex, prog, {'Topic': 1, 'Subscription': 0, 'Message': 0, 'Delivery': 0}, exists=True)
        db.t['Topic'][0].v['name'] = 'projects/p/topics/old'
        labels = reldb.sym_value(ex, 'map', 'req.labels')
        req = ex.new_ptr(ex.new_struct(PB + 'Topic', Name='projects/p/topics/new', Labels=labels))
        r1, err, code = call_handler(ex, db, ht, req)
        if err is not None:
            raise PathAbort('not accepted')
        r2, err2, code2 = call_handler(ex, db, hgt, ex.new_ptr(ex.new_struct(PB + 'GetTopicRequest', Topic='projects/p/topics/new')))
        ob.verify(ex, 'created-topic-can-be-read-back', err2 is None)
        if err2 is None:
            for tag, r in (('create-response', r1), ('get-response', r2)):
                ob.verify(ex, tag + ':name', ex.eq(ex.getf(r, 'Name'), 'projects/p/topics/new'))
                ob.verify(ex, tag + ':labels', val_eq(ex, ex.getf(r, 'Labels'), labels) if isinstance(ex.getf(r, 'Labels'), SymMap) else False)
    chk.run('create-then-get:topic', prog, harness_t, bounds={'labels': 'arbitrary map'}, setup=world.setup)


PATHS = {
    'labels': ['labels'], 'expiration_policy': ['ttl', 'expires_at'], 'message_retention_duration': ['message_ttl'],
    'enable_message_ordering': ['ordered_delivery'], 'retry_policy': ['min_backoff', 'max_backoff'], 'push_config': ['push_endpoint'],
    'filter': ['filter'], 'dead_letter_policy': ['dead_letter_topic_id', 'max_delivery_attempts'],
}
REJECTED = ['name', 'topic', 'ack_deadline_seconds', 'retain_acked_messages', 'detached', 'no_such_field']


def update_locality(chk, prog):
    DTTL, DMTTL, DATT = consts(prog)
    hs = list_handlers(prog)
    hu = [x for x in hs if x['method'] == 'UpdateSubscription'][0]
    allp = list(PATHS) + REJECTED

    def harness(ex, ob):
        db = reldb.sym_db(ex, prog, {'Topic': 2, 'Subscription': 2, 'Message': 0, 'Delivery': 0}, exists=True)
        for i, t in enumerate(db.t['Topic']):
            t.v['name'] = 'projects/p/topics/r%d' % i
        for i, s in enumerate(db.t['Subscription']):
            s.v['name'] = 'projects/p/subscriptions/r%d' % i
        ex.assume(db.t['Subscription'][0].isnull('deleted_at'))
        npaths = 1 + (ex.choose(2) if chk.thorough else 0)
        paths = [allp[ex.choose(len(allp))] for _ in range(npaths)]

        def opt(p, tag):
            p.nilc = z3.Bool(tag + '.isnil')
            return p
        ttl_p, ttl = sym_duration(ex, 'req.ttl', nonneg=False)
        ret_p, ret = sym_duration(ex, 'req.retention', nonneg=False)
        minb_p, minb = sym_duration(ex, 'req.min_backoff', nonneg=False)
        maxb_p, maxb = sym_duration(ex, 'req.max_backoff', nonneg=False)
        dlt = ['', 'projects/p/topics/r1', 'projects/p/topics/unknown'][ex.choose(3)] if 'dead_letter_policy' in paths else ''
        att = z3.Int('req.max_delivery_attempts')
        ex.assume(z3.And(att >= -2**31, att < 2**31))
        sub = ex.new_ptr(ex.new_struct(
            PB + 'Subscription', Name='projects/p/subscriptions/r0', Labels=reldb.sym_value(ex, 'map', 'req.labels'),
            EnableMessageOrdering=z3.Bool('req.ordering'), Filter=z3.String('req.filter'),
            ExpirationPolicy=opt(ex.new_ptr(ex.new_struct(PB + 'ExpirationPolicy', Ttl=opt(ttl_p, 'req.ttl'))), 'req.exp'),
            MessageRetentionDuration=opt(ret_p, 'req.retention'),
            RetryPolicy=opt(ex.new_ptr(ex.new_struct(PB + 'RetryPolicy', MinimumBackoff=opt(minb_p, 'req.minb'), MaximumBackoff=opt(maxb_p, 'req.maxb'))), 'req.retry'),
            PushConfig=opt(ex.new_ptr(ex.new_struct(PB + 'PushConfig', PushEndpoint=z3.String('req.endpoint'))), 'req.push'),
            DeadLetterPolicy=opt(ex.new_ptr(ex.new_struct(PB + 'DeadLetterPolicy', DeadLetterTopic=dlt, MaxDeliveryAttempts=att)), 'req.dlp')))
        req = ex.new_ptr(ex.new_struct(PB + 'UpdateSubscriptionRequest', Subscription=sub, UpdateMask=ex.new_ptr(ex.new_struct(FM, Paths=ex.mkslice(paths)))))
        pre = db.snapshot()
        try:
            resp, err, code = call_handler(ex, db, hu, req)
        except GoPanic:
            raise PathAbort('panics are C16')
        touched = set(c for p in paths for c in PATHS.get(p, []))
        d = lambda m: {'paths': paths, 'request': req_to_json(ex, m, req)}
        s0, q0 = pre['Subscription'][0], db.t['Subscription'][0]
        if any(p in REJECTED for p in paths):
            # the request is rejected; with one path the code is InvalidArgument, with two an earlier path may already have failed with its
            # own status (NotFound for an unknown / deleted dead-letter topic)
            ob.verify(ex, 'unsupported-path-is-InvalidArgument', (code == 3) if len(paths) == 1 else (code in (3, 5)), d)
        if err is not None:
            for e in reldb.ENTITIES:
                ob.verify(ex, 'rejected-update-changes-nothing:' + e, table_same(ex, pre[e], db.t[e]), d)
            return
        for c in s0.v:
            if c not in touched:
                ob.verify(ex, 'unmasked-field-unchanged:' + c, col_eq(ex, s0, q0, c), d)
        ob.verify(ex, 'other-subscription-unchanged', row_same(ex, pre['Subscription'][1], db.t['Subscription'][1]), d)
        for e in ('Topic', 'Message', 'Delivery', 'Snapshot'):
            ob.verify(ex, 'update-leaves:' + e, table_same(ex, pre[e], db.t[e]), d)
        # the masked fields take the requested value
        if 'enable_message_ordering' in paths:
            ob.verify(ex, 'masked:ordering', ex.eq(q0.v['ordered_delivery'], ex.getf(sub, 'EnableMessageOrdering')), d)
        if 'labels' in paths:
            ob.verify(ex, 'masked:labels', val_eq(ex, q0.v['labels'], ex.getf(sub, 'Labels')) if isinstance(q0.v['labels'], SymMap) else False, d)
        def req_dur(block_nil, p, total):
            # AsDuration of an absent message is 0
            nil = Or(*[x for x in block_nil if x is not None]) if block_nil else False
            return Ite(nil, 0, total)
        subv = sub.get()
        expp = ex.getf(subv, 'ExpirationPolicy')
        if 'expiration_policy' in paths:
            got = req_dur([expp.nilc, ex.getf(expp, 'Ttl').nilc], None, ttl)
            want = Ite(ex.eq(got, 0), DTTL, got)
            ob.verify(ex, 'masked:expiration-ttl-with-default', And(ex.eq(q0.v['ttl'], want), Or(*[ex.eq(q0.v['expires_at'], t + want) for t in stdlib.clock(ex)['nows']])), d)
        if 'message_retention_duration' in paths:
            got = req_dur([ex.getf(subv, 'MessageRetentionDuration').nilc], None, ret)
            ob.verify(ex, 'masked:retention-with-default', ex.eq(q0.v['message_ttl'], Ite(ex.eq(got, 0), DMTTL, got)), d)
        if 'retry_policy' in paths:
            rp = ex.getf(subv, 'RetryPolicy')
            for col, fld, tot in (('min_backoff', 'MinimumBackoff', minb), ('max_backoff', 'MaximumBackoff', maxb)):
                fp = ex.getf(rp, fld)
                absent = Or(rp.nilc, fp.nilc)
                ob.verify(ex, 'masked:retry-policy-' + col, And(Implies(absent, q0.isnull(col)), Implies(Not(absent), And(Not(q0.isnull(col)), ex.eq(q0.v[col], tot)))), d)
        if 'dead_letter_policy' in paths:
            dlp = ex.getf(subv, 'DeadLetterPolicy')
            cleared = Or(dlp.nilc, dlt == '')
            t1 = db.t['Topic'][1]
            ob.verify(ex, 'masked:dead-letter-policy', And(Implies(cleared, And(q0.isnull('dead_letter_topic_id'), q0.isnull('max_delivery_attempts'))),
                                                           Implies(Not(cleared), And(Not(q0.isnull('dead_letter_topic_id')), ex.eq(q0.v['dead_letter_topic_id'], t1.v['id']),
                                                                                     t1.isnull('deleted_at'),      # an accepted policy names a live topic
                                                                                     ex.eq(q0.v['max_delivery_attempts'], Ite(ex.eq(att, 0), DATT, att))))), d)
        if 'filter' in paths:
            f = ex.getf(sub, 'Filter')
            ob.verify(ex, 'masked:filter', Or(And(ex.eq(f, ''), q0.isnull('filter')), And(Not(q0.isnull('filter')), ex.eq(q0.v['filter'], f))), d)
    chk.run('update:mask-locality', prog, harness, bounds={'mask': '1 path (2 on thorough) out of %d known/unknown paths' % len(allp), 'request subscription': 'symbolic values; optional blocks nil or present'},
            setup=world.setup, max_paths=300000)


class DigitStr:
    """a regexp sub-match: optional sign + nd decimal digits with symbolic value; nd = 0 is the empty (unmatched) group"""

    def __init__(self, sign, nd, value):
        self.sign, self.nd, self.value = sign, nd, value

    def go_len(self, ex):
        return self.nd + len(self.sign)

    def go_eq(self, ex, other):
        if isinstance(other, str) and other == '':
            return self.nd == 0
        raise Unsupported('DigitStr ==')

    def go_rconcat(self, ex, prefix):
        if not isinstance(prefix, str):
            raise Unsupported('concatenation of a symbolic string and a sub-match')
        return PrefixedDigits(prefix, self)

    def go_index(self, ex, i):
        n = self.nd + len(self.sign)
        if is_sym(i) or i < 0 or i >= n:
            raise GoPanic('index out of range on sub-match')
        if i < len(self.sign):
            return ord(self.sign)
        d = ex.fresh('digit')
        ex.assume(z3.And(d >= 48, d <= 57))
        return d


class PrefixedDigits:
    """constant prefix + a sub-match (e.g. "0." + fraction digits)"""

    def __init__(self, prefix, digits):
        self.prefix, self.digits = prefix, digits


def pg_interval_codec(chk, prog):
    """ParsePostgreSQLInterval on text in PostgreSQL's interval output format: the real arithmetic on symbolic field values vs PostgreSQL's meaning"""
    import re as pyre
    ST = 'go.6river.tech/mmmbbb/internal/sqltypes.'
    # the pattern is read from the current source (the string constant handed to regexp.MustCompile in the package initialiser)
    pattern = None
    for b in prog.funcs[ST + 'init'].get('blocks', []):
        for ins in b['ins']:
            if ins['op'] == 'Call' and ins['call'].get('static') == 'regexp.MustCompile':
                a = ins['call']['args'][0]
                if isinstance(a, dict) and a.get('s'):
                    pattern = a['c']
    if pattern is None:
        raise SystemExit('C17: interval pattern not found')
    gi = pyre.compile(pattern).groupindex
    ngroups = pyre.compile(pattern).groups
    DAY = 24 * 3600 * SEC

    def harness(ex, ob):
        QUICK = {'years': [0, 1], 'months': [0, 1], 'days': [0, 2], 'hours': [2, 3], 'minutes': [2], 'seconds': [2], 'subseconds': [0, 1, 6]}

        def grp(tag, signs, maxd, optional):
            if chk.thorough:
                nd = ex.choose(maxd + 1) if optional else 1 + ex.choose(maxd)
            else:
                nd = QUICK[tag][ex.choose(len(QUICK[tag]))]
            if nd == 0:
                return DigitStr('', 0, 0), 0, '', 0
            sign = signs[ex.choose(len(signs))]
            v = z3.Int('iv.' + tag)
            ex.assume(z3.And(v >= 0, v < 10**nd))
            return DigitStr(sign, nd, v), (-v if sign == '-' else v), sign, nd
        y, yv, ys, ynd = grp('years', ['', '-', '+'], 2, True)
        mo, mov, mos, mond = grp('months', ['', '-', '+'], 2, True)
        d, dv, ds, dnd = grp('days', ['', '-', '+'], 3, True)
        h, hv, hs, hnd = grp('hours', ['', '-'], 3, False)
        mi, miv, _, mind = grp('minutes', [''], 2, False)
        se, sev, _, send = grp('seconds', [''], 2, False)
        fr, frv, _, frnd = grp('subseconds', [''], 9 if chk.thorough else 6, True)
        groups = [DigitStr('', 0, 0) for _ in range(ngroups + 1)]
        for name, g in (('years', y), ('months', mo), ('days', d), ('hours', h), ('minutes', mi), ('seconds', se), ('subseconds', fr)):
            groups[gi[name]] = g
        src = Opaque('intervaltext')

        def find(ex_, a, nm):
            return ex_.mkslice(groups)

        def subexp(ex_, a, nm):
            return gi[a[1]]

        def atoi(ex_, a, nm):
            g = a[0]
            return ((-g.value if g.sign == '-' else g.value), None)

        def pow10(ex_, a, nm):
            return FloatV(float(10 ** a[0]))
        used_float = []

        def parse_float(ex_, a, nm):
            # strconv.ParseFloat on "0." + digits: the correctly rounded float64 of value / 10^nd (standard error model)
            g = a[0]
            if not (isinstance(g, PrefixedDigits) and g.prefix == '0.' and g.digits.sign == ''):
                raise Unsupported('strconv.ParseFloat on %r' % (g,))
            from gosym import fpmodel
            used_float.append(1)
            return (FloatV(fpmodel.rounded(ex_, z3.ToReal(g.digits.value) / z3.RealVal(10 ** g.digits.nd))), None)
        ex.intrinsics = dict(ex.intrinsics)
        ex.intrinsics.update({'(*regexp.Regexp).FindStringSubmatch': find, '(*regexp.Regexp).SubexpIndex': subexp, 'strconv.Atoi': atoi, 'math.Pow10': pow10,
                              'strconv.ParseFloat': parse_float})
        res, err = ex.call_named(ST + 'ParsePostgreSQLInterval', [src])
        # PostgreSQL's meaning: the sign written before the hours applies to the whole HH:MM:SS.ffffff part
        tsign = -1 if hs == '-' else 1
        scale = (SEC // 10**frnd) if frnd else 0
        want = yv * 365 * DAY + mov * 30 * DAY + dv * DAY + tsign * (h.value * 3600 * SEC + mi.value * 60 * SEC + se.value * SEC + fr.value * scale)

        def text(m):
            def f(g, nd):
                return '' if nd == 0 else g.sign + str(m.eval(zint(g.value), model_completion=True).as_long()).rjust(nd, '0')
            t = ''
            if ynd:
                t += f(y, ynd) + ' years '
            if mond:
                t += f(mo, mond) + ' mons '
            if dnd:
                t += f(d, dnd) + ' days '
            t += f(h, max(hnd, 2)) + ':' + f(mi, 2) + ':' + f(se, 2)
            if frnd:
                t += '.' + f(fr, frnd)
            return t
        dsc = lambda m: {'text': text(m), 'want_ns': m.eval(zint(want), model_completion=True).as_long()}

        def rp(m, desc):
            cands = [(desc['text'], desc['want_ns'])]
            if used_float and frnd:
                # the code went through float64: under the error model every fraction value is a counterexample candidate (the model
                # over-approximates rounding); the replay tries further fraction values of the same shape to find one that reproduces
                import random
                rnd = random.Random(12345)
                ev = lambda x: m.eval(zint(x), model_completion=True).as_long()
                base = ev(want) - tsign * ev(fr.value) * scale
                head = desc['text'].rsplit('.', 1)[0]
                for k in range(600):
                    nd2 = (frnd, 6, 9)[k % 3]      # fraction values of this and of the two usual lengths (micro-, nanoseconds)
                    v = rnd.randrange(10 ** nd2)
                    cands.append((head + '.' + str(v).rjust(nd2, '0'), base + tsign * v * (SEC // 10 ** nd2)))
            scn = {'base_now': '2000000000000000000', 'rows': {}, 'ops': [{'op': 'parse_interval', 's': t} for t, _ in cands]}
            out = replay.run_scenarios([scn])[0]
            if 'error' in out:
                raise RuntimeError(out['error'][-300:])
            for (t, w), r in zip(cands, out['results']):
                if r.get('err') is not None or int(r['ns']) != w:
                    scn1 = {'base_now': '2000000000000000000', 'rows': {}, 'ops': [{'op': 'parse_interval', 's': t}]}
                    return True, replay.save_scenario('C17', 'pg-interval', scn1, dict(desc, text=t, want_ns=w, got=r))
            return False, replay.save_scenario('C17', 'pg-interval', scn, desc)
        ob.verify(ex, 'postgres-interval-text-parses', err is None, dsc, replay=rp)
        if err is None:
            ob.verify(ex, 'postgres-interval-text-means-what-postgres-means', ex.eq(res, want), dsc, replay=rp,
                      known=lambda pred, m, desc: desc['text'].lstrip().split(' ')[-1].startswith('-'))
    chk.run('codec:postgres-interval-text', prog, harness, bounds={'fields': 'thorough: years/months <= 2 digits, days/hours <= 3, minutes/seconds 1-2, fraction 0..9 digits; quick: digit counts years/months {0,1}, days {0,2}, hours {2,3}, minutes/seconds 2, fraction {0,1,6}; all digit values symbolic',
                                                                    'signs': 'optional +/- on years, months, days; optional - on the time part'},
            max_paths=400000)
    chk.assumptions += ['regexp sub-match extraction is trusted: the harness supplies the named groups (group indexes are read from the pattern in the current source)',
                        'PostgreSQL interval output format: [N year[s] ][N mon[s] ][N day[s] ][-]HH:MM:SS[.ffffff], the sign before HH applying to the whole time part']


if __name__ == '__main__':
    chk = Check('C17')
    prog = load_program()
    chk.repo_hash = prog.repo_hash
    create_then_get(chk, prog)
    update_locality(chk, prog)
    pg_interval_codec(chk, prog)
    chk.assumptions += ['accepted requests only (valid names, filter accepted by the parser, valid protobuf Durations up to ~285 years)',
                        'label maps are opaque values with identity; JSON encoding of labels and driver-level encoding of intervals are outside the claim',
                        'durationpb.New / AsDuration are executed (integer div/mod 1e9)',
                        'Interval.Value -> time.Duration.String -> time.ParseDuration (the SQLite storage path) is NOT decided by this check: the stdlib digit loops over symbolic values are outside the encoder (see DESIGN.md); the PostgreSQL text path is decided up to the stated field widths']
    chk.finish()
