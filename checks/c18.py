#!/usr/bin/env python3-vt
"""C18: an injected fault fires exactly its count, only on matching calls -- for every schedule of concurrent callers."""
import sys, os, json
sys.path.insert(0, os.path.dirname(os.path.dirname(os.path.abspath(__file__))))
import z3
from gosym.core import *
from gosym.runner import Check, load_program
from gosym import stdlib
from gosym.stdlib import mkerr

F = 'go.6river.tech/mmmbbb/faults.'


class Prom(Opaque):
    def __init__(self):
        Opaque.__init__(self, 'prom')

    def go_invoke(self, ex, method, args):
        return self


def prom_any(ex, args, name):
    return Prom()


def mkset(ex, descs_by_op):
    s = ex.zero(F + 'Set')
    m = MapObj()
    for op, ds in descs_by_op.items():
        m.ents.append([op, ex.mkslice(ds)])
    ex.setf(s, 'faults', m)
    ex.setf(s, 'faultsTriggered', Prom())
    ex.setf(s, 'faultsExpired', Iface('prom', Prom()))
    ex.setf(s, 'faultsAdded', Iface('prom', Prom()))
    return ex.new_ptr(s)


def mkmap(pairs):
    m = MapObj()
    for k, v in pairs:
        m.ents.append([k, v])
    return m


def subset_match(chk, prog):
    def harness(ex, ob):
        nd, npar = ex.choose(3), ex.choose(3)
        dk = [z3.String('dkey%d' % i) for i in range(nd)]
        dv = [z3.String('dval%d' % i) for i in range(nd)]
        pk = [z3.String('pkey%d' % i) for i in range(npar)]
        pv = [z3.String('pval%d' % i) for i in range(npar)]
        for ks in (dk, pk):
            if len(ks) == 2:
                ex.assume(ks[0] != ks[1])
        cnt = z3.Int('count')
        ex.assume(z3.And(cnt > -2**62, cnt < 2**62))
        dop, op = z3.String('dop'), z3.String('op')
        d = ex.new_ptr(ex.new_struct(F + 'Description', Operation=dop, Parameters=mkmap(zip(dk, dv)), Count=cnt))
        r = ex.call_named('(*' + F + 'Description).match', [d, op, mkmap(zip(pk, pv))])
        subset = And(*[Or(*[And(pk[j] == dk[i], pv[j] == dv[i]) for j in range(npar)]) for i in range(nd)])
        ob.verify(ex, 'match <=> count>0 & same operation & every injected parameter equal', ex.eq(r, And(cnt > 0, dop == op, subset)),
                  lambda m: {'model': {str(x): str(m[x]) for x in m.decls()}})
    chk.run('match-is-subset-match', prog, harness, bounds={'injected parameters': '0..2', 'call parameters': '0..2', 'strings': 'arbitrary'}, intr={}, pats=[])


def concurrent_count(chk, prog, T, D):
    """T concurrent Check calls on D descriptions of one operation; the schedule of atomic operations is an SMT variable"""
    def harness(ex, ob):
        events = []          # (thread, kind, desc index, ts, n_before, value)
        cur = {'t': 0}
        c0 = [z3.Int('count%d' % j) for j in range(D)]
        for c in c0:
            ex.assume(z3.And(c >= 0, c <= T + 1))
        dvals = [z3.String('dval%d' % j) for j in range(D)]
        descs = []
        cells = {}
        fired = []

        def onfault(ex_, a):
            dd = a[0]
            fired.append((cur['t'], cur.get('last_add')))
            return mkerr('injected', 'injected fault')
        for j in range(D):
            d = ex.new_struct(F + 'Description', Operation='Op', Parameters=mkmap([('k', dvals[j])]), Count=0, OnFault=PyFunc(onfault, 'OnFault'))
            p = ex.new_ptr(d)
            descs.append(p)
            cells[id(p.get())] = j

        def which(ptr):
            return cells[id(ptr.base)]

        def monotone(ex_, j, n):
            # counts only ever decrease: along one thread's program order the number of earlier decrements cannot shrink,
            # and it includes the thread's own decrement (implied by the exact schedule constraints added at the end)
            ex_.assume(z3.And(n >= 0, n <= T * (D + 1)))
            prev = [e for e in events if e[0] == cur['t'] and e[2] == j]
            if prev:
                p = prev[-1]
                ex_.assume(n >= p[4] + (1 if p[1] == 'add' else 0))

        def atomic_load(ex_, a, name):
            j = which(a[0])
            ts, n = ex_.fresh('ts'), ex_.fresh('nbefore')
            monotone(ex_, j, n)
            v = c0[j] - n
            events.append((cur['t'], 'load', j, ts, n, v))
            return v

        def atomic_add(ex_, a, name):
            j = which(a[0])
            ts, n = ex_.fresh('ts'), ex_.fresh('nbefore')
            monotone(ex_, j, n)
            v = c0[j] - n + a[1]
            events.append((cur['t'], 'add', j, ts, n, v))
            cur['last_add'] = j
            return v
        ex.intrinsics = dict(ex.intrinsics)
        ex.intrinsics['sync/atomic.LoadInt64'] = atomic_load
        ex.intrinsics['sync/atomic.AddInt64'] = atomic_add
        s = mkset(ex, {'Op': descs})
        pvals = [z3.String('pval%d' % t) for t in range(T)]
        results = []
        for t in range(T):
            cur['t'] = t
            cur['last_add'] = None
            err = ex.call_named('(*' + F + 'Set).Check', [s, 'Op', mkmap([('k', pvals[t])])])
            results.append(err)
        # ---- the schedule: distinct timestamps, program order per thread, values = effect of the adds ordered before
        tss = [e[3] for e in events]
        cons = []
        if len(tss) > 1:
            cons.append(z3.Distinct(*tss))
        for t in range(T):
            mine = [e for e in events if e[0] == t]
            for a, b in zip(mine, mine[1:]):
                cons.append(a[3] < b[3])
        for e in events:
            adds = [a for a in events if a[1] == 'add' and a[2] == e[2] and a is not e]
            cons.append(e[4] == sum([z3.If(a[3] < e[3], 1, 0) for a in adds]) if adds else e[4] == 0)
        ex.assume(z3.And(*cons) if cons else True)
        if ex.check_sat() != z3.sat:
            raise Infeasible()
        d = lambda m: {'threads': T, 'descriptions': D, 'initial_counts': [m.eval(c, model_completion=True).as_long() for c in c0],
                       'call_params': [str(m.eval(p, model_completion=True)) for p in pvals], 'fault_params': [str(m.eval(p, model_completion=True)) for p in dvals],
                       'failed_calls': [r is not None for r in results],
                       'schedule': sorted([(m.eval(e[3], model_completion=True).as_long(), 'T%d %s d%d -> %s' % (e[0], e[1], e[2], m.eval(zint(e[5]), model_completion=True))) for e in events])}
        nfired = {j: len([1 for (t, jj) in fired if jj == j]) for j in range(D)}
        for j in range(D):
            ob.verify(ex, 'fires-at-most-its-count[d%d]' % j, nfired[j] <= c0[j], d)
        for (t, j) in fired:
            ob.verify(ex, 'fails-only-on-matching-call', pvals[t] == dvals[j], d)
        for t in range(T):
            ob.verify(ex, 'failure-iff-a-fault-fired[T%d]' % t, (results[t] is not None) == (len([1 for (tt, j) in fired if tt == t]) == 1), d)
            if results[t] is None:
                for j in range(D):
                    total = len([1 for e in events if e[1] == 'add' and e[2] == j])
                    ob.verify(ex, 'unfailed-matching-call-means-exhausted[T%d,d%d]' % (t, j), Implies(pvals[t] == dvals[j], c0[j] - total <= 0), d)
        if D == 1:
            matching = sum([z3.If(pvals[t] == dvals[0], 1, 0) for t in range(T)])
            ob.verify(ex, 'exactly-min(N,matching-calls)-fail', nfired[0] == z3.If(c0[0] < matching, c0[0], matching), d)
    chk.run('exact-count-under-all-schedules[T=%d,D=%d]' % (T, D), prog, harness,
            bounds={'threads': T, 'descriptions': D, 'initial counts': '0..%d' % (T + 1), 'loop unwinding': 'unwinding assertion at %d iterations' % 40},
            pats=[(__import__('re').compile(r'^\(\*?github\.com/prometheus/client_golang/prometheus\.'), prom_any)], max_paths=300000)


def prune_and_listing(chk, prog):
    def harness(ex, ob):
        n = 1 + ex.choose(3)
        counts = [z3.Int('c%d' % i) for i in range(n)]
        for c in counts:
            ex.assume(z3.And(c >= -3, c <= 3))
        ptrs = [ex.new_ptr(ex.new_struct(F + 'Description', Operation='Op', Parameters=None, Count=c, FaultDescription='d%d' % i)) for i, c in enumerate(counts)]

        def atomic_load(ex_, a, name):
            return a[0].get()
        ex.intrinsics = dict(ex.intrinsics)
        ex.intrinsics['sync/atomic.LoadInt64'] = atomic_load
        s = mkset(ex, {'Op': ptrs})
        cur = ex.call_named('(*' + F + 'Set).Current', [s])
        listed = []
        for k, v in cur.ents:
            listed += [ex.getf(x, 'FaultDescription') for x in v.items()]
        want = [('d%d' % i) for i in range(n)]
        # on this path the branch decisions fixed which counts are > 0
        for i in range(n):
            ob.verify(ex, 'exhausted-fault-not-listed[%d]' % i, ex.eq(('d%d' % i) in listed, counts[i] > 0))
        ex.call_named('(*' + F + 'Set).prune', [s])
        m = ex.getf(s, 'faults')
        kept = []
        for k, v in m.ents:
            kept += [ex.getf(x, 'FaultDescription') for x in v.items()]
        for i in range(n):
            ob.verify(ex, 'prune-keeps-exactly-live-faults[%d]' % i, ex.eq(('d%d' % i) in kept, counts[i] > 0))
        ob.verify(ex, 'prune-keeps-order', kept == sorted(kept))
    chk.run('prune-and-listing', prog, harness, bounds={'descriptions': '1..3', 'counts': '-3..3'},
            pats=[(__import__('re').compile(r'^\(\*?github\.com/prometheus/client_golang/prometheus\.'), prom_any)])


def prune_vs_add(chk, prog):
    """the background clean-up (prune) against a concurrent Add for the same operation: every lock-protected region is one atomic
    step; Add (one write-locked region) is placed before prune, at any point where prune holds no lock, or after it - an added live
    fault is never lost and the live ones that were there stay"""
    def harness(ex, ob):
        n = 1 + ex.choose(2)
        counts = [z3.Int('c%d' % i) for i in range(n)]
        for c in counts:
            ex.assume(z3.And(c >= -1, c <= 2))
        ptrs = [ex.new_ptr(ex.new_struct(F + 'Description', Operation='Op', Parameters=None, Count=c, FaultDescription='d%d' % i)) for i, c in enumerate(counts)]
        s = mkset(ex, {'Op': ptrs})
        newd = ex.new_struct(F + 'Description', Operation='Op', Parameters=None, Count=1, FaultDescription='added')
        st = {'held': 0, 'added_at': None, 'in_add': False, 'points': 0}

        def do_add(where):
            st['in_add'] = True
            try:
                ex.call_named('(*' + F + 'Set).Add', [s, newd])
            finally:
                st['in_add'] = False
            st['added_at'] = where

        def mutex(ex_, a, name):
            op = name.rsplit('.', 1)[-1]
            if st['in_add']:
                return None
            if op in ('Lock', 'RLock'):
                if st['held'] == 0 and st['added_at'] is None:
                    st['points'] += 1
                    if ex_.choose(2) == 1:       # the other thread's Add gets the lock first
                        do_add('before lock acquisition %d of prune' % st['points'])
                st['held'] += 1
            elif op in ('Unlock', 'RUnlock'):
                st['held'] -= 1
            return None

        def atomic_load(ex_, a, name):
            return a[0].get()
        ex.intrinsics = dict(ex.intrinsics)
        ex.intrinsics['sync/atomic.LoadInt64'] = atomic_load
        for mname in ('(*sync.RWMutex).Lock', '(*sync.RWMutex).Unlock', '(*sync.RWMutex).RLock', '(*sync.RWMutex).RUnlock', '(*sync.Mutex).Lock', '(*sync.Mutex).Unlock'):
            ex.intrinsics[mname] = mutex
        ex.call_named('(*' + F + 'Set).prune', [s])
        if st['added_at'] is None:
            do_add('after prune')
        m = ex.getf(s, 'faults')
        kept = []
        for k, v in m.ents:
            kept += [ex.getf(x, 'FaultDescription') for x in v.items()]
        d = lambda mdl: {'add placed': st['added_at'], 'counts': [mdl.eval(c, model_completion=True).as_long() for c in counts], 'left in the set': kept}

        def rp(mdl, desc):
            # the schedule class "Add arrives while prune is at work" on the real code: the scan is made long and prune is caught in
            # the act through the lock (schedules with Add before / after prune are sequential and need no race)
            from gosym import replay
            if not str(desc['add placed']).startswith('before lock acquisition') or desc['add placed'].endswith(' 1 of prune'):
                return False, None
            live = sum(1 for c in desc['counts'] if c > 0)
            ok, out, outs = replay.run_go_test('faults', 'zz_verif_faults_replay_test.go', 'TestVerifFaultsReplay',
                                               {'VERIF_FAULTS_OUT': '$DIR/out.json', 'VERIF_FAULTS_LIVE': str(live)})
            path = replay.save_scenario('C18', 'prune-vs-add', {'schedule': desc, 'real run': outs.get('VERIF_FAULTS_OUT'), 'driver': 'replay/zz_verif_faults_replay_test.go'})
            if 'VERIF_FAULTS_OUT' not in outs:
                raise RuntimeError(out[-400:])
            r = json.loads(outs['VERIF_FAULTS_OUT'])
            if r['conclusive'] == 0:
                return False, path
            return (r['add_lost'] > 0 or r['live_lost'] > 0), path
        ob.verify(ex, 'concurrent-add-is-not-lost', 'added' in kept, d, replay=rp)
        for i in range(n):
            ob.verify(ex, 'live-fault-survives-prune-and-add[%d]' % i, Implies(counts[i] > 0, ('d%d' % i) in kept), d, replay=rp)
    chk.run('prune-against-concurrent-add', prog, harness, bounds={'descriptions before': '1..2', 'counts': '-1..2', 'interleaving': 'Add as one atomic step at every lock acquisition of prune'},
            pats=[(__import__('re').compile(r'^\(\*?github\.com/prometheus/client_golang/prometheus\.'), prom_any)])


def request_parameters(chk, prog):
    """grpc/faults.go: the parameter set a call is matched against is exactly {service: method} plus the string fields of THAT request -
    nothing left over from an earlier message that went through the pooled map (unary, stream receive and stream send entry points)"""
    G = 'go.6river.tech/mmmbbb/grpc.'
    pool = []

    def pool_get(ex, args, name):
        if pool:
            return Iface('map[string]string', pool.pop())
        return Iface('map[string]string', MapObj())      # what the pool's New does: make(faults.Parameters)

    def pool_put(ex, args, name):
        v = args[1]
        pool.append(v.v if isinstance(v, Iface) else v)
        return None

    class FD(Opaque):
        def __init__(self, name):
            Opaque.__init__(self, 'fielddesc', fname=name)

        def go_invoke(self, ex, method, a):
            if method == 'Kind':
                return 9          # protoreflect.StringKind
            if method == 'Cardinality':
                return 1          # Optional
            if method in ('TextName', 'Name'):
                return self.fname
            if method == 'JSONName':
                return self.fname
            if method == 'FullName':
                return 'pkg.Msg.' + self.fname
            raise Unsupported('FieldDescriptor.' + method)

    class Refl(Opaque):
        def __init__(self, fields):
            Opaque.__init__(self, 'protoreflect')
            self.fields = fields

        def go_invoke(self, ex, method, a):
            if method == 'Range':
                for n, v in self.fields:
                    if not ex.branch(ex.call_value(a[0], [Iface('model.fd', FD(n)), Opaque('pvalue', s=v)])):
                        break
                return None
            raise Unsupported('protoreflect.Message.' + method)

    class Msg(Opaque):
        def __init__(self, fields):
            Opaque.__init__(self, 'protomsg')
            self.fields = fields

        def go_implements(self, ex, at, need):
            return True

        def go_invoke(self, ex, method, a):
            if method == 'ProtoReflect':
                return Iface('model.refl', Refl(self.fields))
            raise Unsupported('ProtoMessage.' + method)

    def value_string(ex, args, name):
        return args[0].s

    class Stream(Opaque):
        def go_invoke(self, ex, method, a):
            return None

    def harness(ex, ob):
        del pool[:]
        m1 = Msg([('subscription', z3.String('m1.subscription')), ('topic', z3.String('m1.topic'))])
        m2 = Msg([('name', z3.String('m2.name'))])
        fs = ex.zero(F + 'Set')
        ex.setf(fs, 'faults', MapObj())
        fsp = ex.new_ptr(fs)
        entry = ex.choose(3)
        if entry == 0:
            icpt = ex.call_named(G + 'UnaryFaultInjector', [fsp])
            INFO = 'google.golang.org/grpc.UnaryServerInfo'
            info = ex.new_ptr(ex.new_struct(INFO, FullMethod='/svc/Method'))
            ex.call_value(icpt, [stdlib.new_context(ex), Iface('model.msg', m1), info, PyFunc(lambda e, a: (None, None), 'handler')])
        else:
            st = ex.new_ptr(ex.new_struct(G + 'faultingStream', ServerStream=Iface('model.stream', Stream('stream')), faults=fsp, service='svc', method='Method'))
            ex.call_named('(*' + G + 'faultingStream).' + ('RecvMsg' if entry == 1 else 'SendMsg'), [st, Iface('model.msg', m1)])
        p2 = ex.call_named(G + 'paramsFromProtoMessage', ['svc', 'Method', Iface('model.msg', m2)])
        keys = [k for k, v in p2.ents]
        d = lambda m: {'first_entry_point': ['unary interceptor', 'stream RecvMsg', 'stream SendMsg'][entry], 'keys_seen_by_second_call': [str(k) for k in keys]}
        ob.verify(ex, 'second-call-sees-only-its-own-request', sorted(str(k) for k in keys) == sorted(['svc', 'name', 'pkg.Msg.name']), d)
        for k, v in p2.ents:
            if k == 'name':
                ob.verify(ex, 'field-value-is-the-request-value', ex.eq(v, m2.fields[0][1]), d)
    chk.run('request-parameters:nothing-leaks-through-the-pool', prog, harness, bounds={'messages': 2, 'entry points': 3},
            intr={'(*sync.Pool).Get': pool_get, '(*sync.Pool).Put': pool_put, '(google.golang.org/protobuf/reflect/protoreflect.Value).String': value_string},
            pats=[(__import__('re').compile(r'^\(\*?github\.com/prometheus/client_golang/prometheus\.'), prom_any)], parallel=False)
    chk.assumptions.append('protoreflect is modelled: a message is a list of singular string fields (Kind, Cardinality, names); sync.Pool hands back the object that was put last')


if __name__ == '__main__':
    chk = Check('C18')
    prog = load_program()
    chk.repo_hash = prog.repo_hash
    subset_match(chk, prog)
    prune_and_listing(chk, prog)
    prune_vs_add(chk, prog)
    request_parameters(chk, prog)
    concurrent_count(chk, prog, 2, 1)
    concurrent_count(chk, prog, 3, 1)
    concurrent_count(chk, prog, 2, 2)
    concurrent_count(chk, prog, 3, 2)
    concurrent_count(chk, prog, 4, 1)
    if chk.thorough:
        concurrent_count(chk, prog, 5, 1)     # (4,2) was tried: not finished after 12 min on 16 cores, outside the claim
    chk.assumptions += ['sync/atomic operations are sequentially consistent single events; the schedule is a total order (integer timestamps) over them',
                        'each thread is executed symbolically once; values read are initial count minus the decrements ordered before (an SMT constraint), so all interleavings are decided by the solver, not enumerated',
                        'sync.RWMutex in the count obligations only delimits the read-locked scan; prune against a concurrent Add is its own obligation (lock-protected regions = atomic steps)',
                        'real protoreflect descriptors of the generated messages are outside the claim (modelled)']
    chk.finish()
