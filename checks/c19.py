#!/usr/bin/env python3-vt
"""C19: HTTP push -- documented envelope, success acks, anything else retries, window within 1..1000."""
import sys, os
sys.path.insert(0, os.path.dirname(os.path.dirname(os.path.abspath(__file__))))
import z3
from gosym.core import *
from gosym.runner import Check, load_program
from gosym import reldb, world, stdlib
from gosym.stdlib import mkerr, new_context

A = 'go.6river.tech/mmmbbb/actions.'
CONN = A + 'httpPushStreamConn'
SUCCESS = (102, 200, 201, 202, 204)


def mkconn(ex, maxm=1, queues=None):
    c = ex.zero(CONN)
    ex.setf(c, 'subscriptionName', z3.String('subscription_name'))
    ex.setf(c, 'subscriptionID', ex.fresh_uuid('subid'))
    ex.setf(c, 'endpoint', z3.String('endpoint'))
    ex.setf(c, 'client', Opaque('httpclient'))
    for q in ('fastAckQueue', 'slowAckQueue', 'nackQueue'):
        ch = Chan(10, name=q)
        ex.setf(c, q, ch)
    ex.setf(c, 'maxBytes', 10_000_000)
    ex.setf(c, 'maxMessages', maxm)
    ex.setf(c, 'logger', Opaque('logger'))
    return ex.new_ptr(c)


def send_obligations(chk, prog):
    captured = {}

    def json_marshal(ex, args, name):
        captured['body'] = args[0]
        return (OpaqueBytes(z3.Int('bodyid'), z3.Int('bodylen')), None)

    def b64(ex, args, name):
        return Opaque('base64', inner=args[1])

    def tfmt(ex, args, name):
        return Opaque('timefmt', t=args[0], layout=args[1])

    def new_reader(ex, args, name):
        return Opaque('reader', data=args[0])

    def new_request(ex, args, name):
        captured['req'] = {'method': args[1], 'url': args[2], 'body': args[3], 'headers': {}}
        if 'net/http.Request' in ex.prog.types:
            return (ex.new_ptr(ex.zero('net/http.Request')), None)
        o = Opaque('httpreq', info=captured['req'])
        o.go_fieldaddr = lambda ex_, i, ins=None: Ptr(Cell(None), 'v')
        return (o, None)

    def header_set(ex, args, name):
        captured['req']['headers'][args[1].lower() if isinstance(args[1], str) else args[1]] = args[2]
        return None

    def req_header(ex, req, i, ins=None):
        return Ptr(Cell(Opaque('header')), 'v')

    class Body(Opaque):
        def go_invoke(self, ex, method, args):
            return None

    def client_do(ex, args, name):
        k = ex.choose(2)
        if k == 0:
            return (None, mkerr('transport', 'connection refused'))
        code = z3.Int('status_code')
        ex.assume(z3.And(code >= 100, code <= 599))
        captured['code'] = code
        RESP = 'net/http.Response'
        if RESP in ex.prog.types:
            r = ex.new_struct(RESP, StatusCode=code, Body=Iface('body', Body('body')))
            return (ex.new_ptr(r), None)
        raise Unsupported('http.Response type not exported')

    def readall(ex, args, name):
        return (OpaqueBytes(0, 0), None)

    def itoa(ex, args, name):
        return ex.fresh('itoa', 'str')

    INTR = {'encoding/json.Marshal': json_marshal, '(*encoding/base64.Encoding).EncodeToString': b64, '(time.Time).Format': tfmt,
            'bytes.NewReader': new_reader, 'net/http.NewRequestWithContext': new_request, '(net/http.Header).Set': header_set,
            '(*net/http.Client).Do': client_do, 'io.ReadAll': readall, 'strconv.Itoa': itoa}

    def harness(ex, ob):
        captured.clear()
        conn = mkconn(ex)
        # request header field access: model *http.Request as an opaque with a Header field
        DEL = A + 'SubscriptionMessageDelivery'
        attrs = reldb.sym_value(ex, 'map', 'attrs')
        payload = reldb.sym_value(ex, 'bytes', 'payload')
        key_present = ex.choose(2) == 1
        key = z3.String('order_key')
        d = ex.new_struct(DEL, ID=ex.fresh_uuid('delid'), MessageID=ex.fresh_uuid('msgid'), PublishedAt=z3.Int('published_at'),
                          NumAttempts=z3.Int('num_attempts'), OrderKey=(ex.new_ptr(key) if key_present else None), Payload=payload, Attributes=attrs)
        dp = ex.new_ptr(d)
        ctx = new_context(ex)
        err = ex.call_named('(*' + CONN + ').Send', [conn, ctx, dp])
        ob.verify(ex, 'send-accepts-the-delivery', err is None)
        body = captured.get('body')
        ob.verify(ex, 'envelope-built', body is not None)
        if body is None:
            return
        pr = body.v.get() if isinstance(body, Iface) else body.get()
        msg = ex.getf(pr, 'Message')
        data, mid, pt = ex.getf(msg, 'Data'), ex.getf(msg, 'MessageId'), ex.getf(msg, 'PublishTime')
        ob.verify(ex, 'data-is-base64-of-the-payload', isinstance(data, Opaque) and data.kind == 'base64' and data.inner is payload)
        ob.verify(ex, 'attributes-are-the-message-attributes', ex.getf(msg, 'Attributes') is attrs)
        ob.verify(ex, 'message-id-is-the-published-id', isinstance(mid, UUIDStr) and ex.eq(mid.v, ex.getf(d, 'MessageID')))
        ob.verify(ex, 'publish-time-rfc3339nano', isinstance(pt, Opaque) and pt.kind == 'timefmt' and ex.eq(pt.t, ex.getf(d, 'PublishedAt')) is True and pt.layout == '2006-01-02T15:04:05.999999999Z07:00')
        ob.verify(ex, 'ordering-key', ex.eq(ex.getf(msg, 'OrderingKey'), key if key_present else ''))
        ob.verify(ex, 'subscription-name', ex.eq(ex.getf(pr, 'Subscription'), ex.getf(conn, 'subscriptionName')))
        ob.verify(ex, 'delivery-attempt', ex.eq(ex.getf(pr, 'DeliveryAttempt'), ex.getf(d, 'NumAttempts')))
        rq = captured.get('req')
        ob.verify(ex, 'POST-json-to-the-endpoint', rq is not None and rq['method'] == 'POST' and ex.eq(rq['url'], ex.getf(conn, 'endpoint')) is True
                  and rq['headers'].get('content-type') == 'application/json')
        # ---- the response handler goroutine
        if len(ex.goroutines) != 1:
            ob.verify(ex, 'one-response-handler-per-push', False)
            return
        kind, fv, args = ex.goroutines[0]
        sent = {}

        def select(ex_, states, blocking, t):
            zero = tuple([ex_.zero(x) for x in ex_.prog.types[t]['elems'][2:]])
            sends = [(i, st) for i, st in enumerate(states) if st[0] == 1]
            if sends and ex_.choose(2) == 0:
                i, st = sends[0]
                st[1].q.append(st[2])
                sent['q'] = st[1].name
                sent['v'] = st[2]
                return (i, False) + zero
            sent['q'] = None
            for i, st in enumerate(states):
                if st[0] == 2:
                    return (i, False) + zero
            raise Unsupported('select')
        ex.xp.select = select
        k0 = len(stdlib.clock(ex)['nows'])
        ex.call_value(fv, args)
        nows = stdlib.clock(ex)['nows'][k0:]
        dur = nows[1] - nows[0] if len(nows) >= 2 else None
        code = captured.get('code')
        if sent.get('q') is None:
            ob.reached(ex)
            return          # the context ended first: nothing is queued (the message stays unacknowledged and is retried)
        ok = And(code is not None, Or(*[code == s for s in SUCCESS])) if code is not None else False
        dsc = lambda m: {'status': (m.eval(code, model_completion=True).as_long() if code is not None else 'transport error'), 'queue': sent['q']}
        ob.verify(ex, 'success-status-acks-anything-else-nacks', ex.eq(sent['q'] in ('fastAckQueue', 'slowAckQueue'), ok), dsc)
        ob.verify(ex, 'queued-id-is-the-delivery-id', ex.eq(sent['v'], ex.getf(d, 'ID')), dsc)
        if dur is not None and sent['q'] in ('fastAckQueue', 'slowAckQueue'):
            ob.verify(ex, 'fast-iff-under-one-second', ex.eq(sent['q'] == 'fastAckQueue', dur < 10**9), dsc)
    chk.run('send:envelope-and-status-mapping', prog, harness, bounds={'status codes': '100..599 (symbolic) or transport error', 'latency': 'arbitrary'},
            intr=INTR, setup=lambda xp: None, max_paths=20000)


def receive_window(chk, prog):
    def harness(ex, ob):
        mm = z3.Int('max_messages')
        ex.assume(z3.And(mm >= 1, mm <= 1000))
        conn = mkconn(ex, maxm=mm)
        which = ['fastAckQueue', 'slowAckQueue', 'nackQueue'][ex.choose(3)]
        k = 1 + ex.choose(10 if chk.thorough else 4)
        ids = [ex.fresh_uuid('id%d' % i) for i in range(k)]
        ex.getf(conn, which).q.extend(ids)
        r, err = ex.call_named('(*' + CONN + ').Receive', [conn, new_context(ex)])
        ob.verify(ex, 'receive-succeeds', err is None)
        acks, nacks = ex.getf(r, 'Ack').items(), ex.getf(r, 'Nack').items()
        d = lambda m: {'queue': which, 'ids': k, 'window_before': m.eval(mm, model_completion=True).as_long()}
        if which == 'nackQueue':
            ob.verify(ex, 'drained-ids-are-nacked', len(nacks) == k and len(acks) == 0 and all(ex.eq(a, b) is True for a, b in zip(nacks, ids)), d)
            want = z3.If(mm > 1, z3.If(mm - 10 * k < 1, 1, mm - 10 * k), mm)
        elif which == 'slowAckQueue':
            ob.verify(ex, 'drained-ids-are-acked', len(acks) == k and len(nacks) == 0 and all(ex.eq(a, b) is True for a, b in zip(acks, ids)), d)
            want = z3.If(mm > 1, z3.If(mm - k < 1, 1, mm - k), mm)
        else:
            ob.verify(ex, 'drained-ids-are-acked', len(acks) == k and len(nacks) == 0 and all(ex.eq(a, b) is True for a, b in zip(acks, ids)), d)
            want = z3.If(mm < 1000, z3.If(mm + k > 1000, 1000, mm + k), mm)
        new = ex.getf(conn, 'maxMessages')
        ob.verify(ex, 'window-update-rule', ex.eq(new, want), d)
        ob.verify(ex, 'window-stays-in-1..1000', And(new >= 1, new <= 1000), d)
        fc = ex.getf(r, 'FlowControl')
        changed = Not(ex.eq(new, mm))
        if fc is None:
            ob.verify(ex, 'flow-control-sent-when-window-changed', Not(changed), d)
        else:
            ob.verify(ex, 'flow-control-carries-the-new-window', And(ex.eq(ex.getf(fc, 'MaxMessages'), new), ex.eq(ex.getf(fc, 'MaxBytes'), 10_000_000)), d)
    chk.run('receive:adaptive-window', prog, harness, bounds={'window': '1..1000 (symbolic)', 'queued responses': '1..%d' % (10 if chk.thorough else 4)}, max_paths=20000)


if __name__ == '__main__':
    chk = Check('C19')
    prog = load_program()
    chk.repo_hash = prog.repo_hash
    send_obligations(chk, prog)
    receive_window(chk, prog)
    chk.assumptions += ['net/http, encoding/json, base64 and time formatting are opaque injective functions: the check decides which value flows into which envelope field, not the byte layout',
                        'the HTTP client returns an arbitrary status in 100..599 or a transport error after an arbitrary latency',
                        'acks/nacks continue through MessageStreamer (C03/C04/C06); the number of concurrent pushes is bounded by the window through flow control (C11)']
    chk.finish()
