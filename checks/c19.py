#!/usr/bin/env python3-vt
"""C19: HTTP push -- documented envelope, success acks, anything else retries, window within 1..1000."""
import sys, os
sys.path.insert(0, os.path.dirname(os.path.dirname(os.path.abspath(__file__))))
import z3
from gosym.core import *
from gosym.runner import Check, load_program
from gosym import reldb, world, stdlib
from gosym.stdlib import mkerr, new_context
from gosym.core import PathAbort

A = 'go.6river.tech/mmmbbb/actions.'
CONN = A + 'httpPushStreamConn'
SUCCESS = (102, 200, 201, 202, 204)


def mkconn(ex, maxm=1, queues=None):
    c = ex.zero(CONN)
    ex.setf(c, 'subscriptionName', z3.String('subscription_name'))
    ex.setf(c, 'subscriptionID', ex.fresh_uuid('subid'))
    ex.setf(c, 'endpoint', z3.String('endpoint'))
    ex.setf(c, 'client', Opaque('httpclient'))
    for q in ('fastAckQueue', 'slowAckQueue', 'nackQueue'):
        ch = Chan(10, name=q)
        ex.setf(c, q, ch)
    ex.setf(c, 'maxBytes', 10_000_000)
    ex.setf(c, 'maxMessages', maxm)
    ex.setf(c, 'logger', Opaque('logger'))
    return ex.new_ptr(c)


def send_obligations(chk, prog):
    captured = {}

    def json_marshal(ex, args, name):
        captured['body'] = args[0]
        return (OpaqueBytes(z3.Int('bodyid'), z3.Int('bodylen')), None)

    def b64(ex, args, name):
        return Opaque('base64', inner=args[1])

    def tfmt(ex, args, name):
        return Opaque('timefmt', t=args[0], layout=args[1])

    def new_reader(ex, args, name):
        return Opaque('reader', data=args[0])

    def new_request(ex, args, name):
        captured['req'] = {'method': args[1], 'url': args[2], 'body': args[3], 'headers': {}}
        if 'net/http.Request' in ex.prog.types:
            return (ex.new_ptr(ex.zero('net/http.Request')), None)
        o = Opaque('httpreq', info=captured['req'])
        o.go_fieldaddr = lambda ex_, i, ins=None: Ptr(Cell(None), 'v')
        return (o, None)

    def header_set(ex, args, name):
        captured['req']['headers'][args[1].lower() if isinstance(args[1], str) else args[1]] = args[2]
        return None

    def req_header(ex, req, i, ins=None):
        return Ptr(Cell(Opaque('header')), 'v')

    class Body(Opaque):
        def go_invoke(self, ex, method, args):
            return None

    def client_do(ex, args, name):
        k = ex.choose(2)
        if k == 0:
            return (None, mkerr('transport', 'connection refused'))
        code = z3.Int('status_code')
        ex.assume(z3.And(code >= 100, code <= 599))
        captured['code'] = code
        RESP = 'net/http.Response'
        if RESP in ex.prog.types:
            r = ex.new_struct(RESP, StatusCode=code, Body=Iface('body', Body('body')))
            return (ex.new_ptr(r), None)
        raise Unsupported('http.Response type not exported')

    def readall(ex, args, name):
        return (OpaqueBytes(0, 0), None)

    def itoa(ex, args, name):
        return ex.fresh('itoa', 'str')

    INTR = {'encoding/json.Marshal': json_marshal, '(*encoding/base64.Encoding).EncodeToString': b64, '(time.Time).Format': tfmt,
            'bytes.NewReader': new_reader, 'net/http.NewRequestWithContext': new_request, '(net/http.Header).Set': header_set,
            '(*net/http.Client).Do': client_do, 'io.ReadAll': readall, 'strconv.Itoa': itoa}

    def harness(ex, ob):
        captured.clear()
        conn = mkconn(ex)
        # request header field access: model *http.Request as an opaque with a Header field
        DEL = A + 'SubscriptionMessageDelivery'
        attrs = reldb.sym_value(ex, 'map', 'attrs')
        payload = reldb.sym_value(ex, 'bytes', 'payload')
        key_present = ex.choose(2) == 1
        key = z3.String('order_key')
        d = ex.new_struct(DEL, ID=ex.fresh_uuid('delid'), MessageID=ex.fresh_uuid('msgid'), PublishedAt=z3.Int('published_at'),
                          NumAttempts=z3.Int('num_attempts'), OrderKey=(ex.new_ptr(key) if key_present else None), Payload=payload, Attributes=attrs)
        dp = ex.new_ptr(d)
        ctx = new_context(ex)
        err = ex.call_named('(*' + CONN + ').Send', [conn, ctx, dp])
        ob.verify(ex, 'send-accepts-the-delivery', err is None)
        body = captured.get('body')
        ob.verify(ex, 'envelope-built', body is not None)
        if body is None:
            return
        pr = body.v.get() if isinstance(body, Iface) else body.get()
        msg = ex.getf(pr, 'Message')
        data, mid, pt = ex.getf(msg, 'Data'), ex.getf(msg, 'MessageId'), ex.getf(msg, 'PublishTime')
        ob.verify(ex, 'data-is-base64-of-the-payload', isinstance(data, Opaque) and data.kind == 'base64' and data.inner is payload)
        ob.verify(ex, 'attributes-are-the-message-attributes', ex.getf(msg, 'Attributes') is attrs)
        ob.verify(ex, 'message-id-is-the-published-id', isinstance(mid, UUIDStr) and ex.eq(mid.v, ex.getf(d, 'MessageID')))
        ob.verify(ex, 'publish-time-rfc3339nano', isinstance(pt, Opaque) and pt.kind == 'timefmt' and ex.eq(pt.t, ex.getf(d, 'PublishedAt')) is True and pt.layout == '2006-01-02T15:04:05.999999999Z07:00')
        ob.verify(ex, 'ordering-key', ex.eq(ex.getf(msg, 'OrderingKey'), key if key_present else ''))
        ob.verify(ex, 'subscription-name', ex.eq(ex.getf(pr, 'Subscription'), ex.getf(conn, 'subscriptionName')))
        ob.verify(ex, 'delivery-attempt', ex.eq(ex.getf(pr, 'DeliveryAttempt'), ex.getf(d, 'NumAttempts')))
        rq = captured.get('req')
        ob.verify(ex, 'POST-json-to-the-endpoint', rq is not None and rq['method'] == 'POST' and ex.eq(rq['url'], ex.getf(conn, 'endpoint')) is True
                  and rq['headers'].get('content-type') == 'application/json')
        # ---- the response handler goroutine
        if len(ex.goroutines) != 1:
            ob.verify(ex, 'one-response-handler-per-push', False)
            return
        kind, fv, args = ex.goroutines[0]
        sent = {}

        def select(ex_, states, blocking, t):
            zero = tuple([ex_.zero(x) for x in ex_.prog.types[t]['elems'][2:]])
            sends = [(i, st) for i, st in enumerate(states) if st[0] == 1]
            if sends and ex_.choose(2) == 0:
                i, st = sends[0]
                st[1].q.append(st[2])
                sent['q'] = st[1].name
                sent['v'] = st[2]
                return (i, False) + zero
            sent['q'] = None
            for i, st in enumerate(states):
                if st[0] == 2:
                    return (i, False) + zero
            raise Unsupported('select')
        ex.xp.select = select
        k0 = len(stdlib.clock(ex)['nows'])
        ex.call_value(fv, args)
        nows = stdlib.clock(ex)['nows'][k0:]
        dur = nows[1] - nows[0] if len(nows) >= 2 else None
        code = captured.get('code')
        if sent.get('q') is None:
            ob.reached(ex)
            return          # the context ended first: nothing is queued (the message stays unacknowledged and is retried)
        ok = And(code is not None, Or(*[code == s for s in SUCCESS])) if code is not None else False
        dsc = lambda m: {'status': (m.eval(code, model_completion=True).as_long() if code is not None else 'transport error'), 'queue': sent['q']}
        ob.verify(ex, 'success-status-acks-anything-else-nacks', ex.eq(sent['q'] in ('fastAckQueue', 'slowAckQueue'), ok), dsc)
        ob.verify(ex, 'queued-id-is-the-delivery-id', ex.eq(sent['v'], ex.getf(d, 'ID')), dsc)
        if dur is not None and sent['q'] in ('fastAckQueue', 'slowAckQueue'):
            ob.verify(ex, 'fast-iff-under-one-second', ex.eq(sent['q'] == 'fastAckQueue', dur < 10**9), dsc)
    chk.run('send:envelope-and-status-mapping', prog, harness, bounds={'status codes': '100..599 (symbolic) or transport error', 'latency': 'arbitrary'},
            intr=INTR, setup=lambda xp: None, max_paths=20000)


def receive_window(chk, prog):
    def harness(ex, ob):
        mm = z3.Int('max_messages')
        ex.assume(z3.And(mm >= 1, mm <= 1000))
        conn = mkconn(ex, maxm=mm)
        QS = ['fastAckQueue', 'slowAckQueue', 'nackQueue']
        KMAX = 10    # the queues' capacity: both tiers cover every fill level of all three queues at once
        counts = [ex.choose(KMAX + 1) if q == 'fastAckQueue' or True else 0 for q in QS]
        if sum(counts) == 0:
            raise PathAbort('nothing to receive')
        ids = {q: [ex.fresh_uuid('%s%d' % (q[:4], i)) for i in range(n)] for q, n in zip(QS, counts)}
        for q in QS:
            ex.getf(conn, q).q.extend(ids[q])
        r, err = ex.call_named('(*' + CONN + ').Receive', [conn, new_context(ex)])
        ob.verify(ex, 'receive-succeeds', err is None)
        acks, nacks = ex.getf(r, 'Ack').items(), ex.getf(r, 'Nack').items()
        left = {q: len(ex.getf(conn, q).q) for q in QS}
        drained = [q for q in QS if left[q] != len(ids[q])]
        d = lambda m: {'queued': dict(zip(QS, counts)), 'left': left, 'acks': len(acks), 'nacks': len(nacks), 'window_before': m.eval(mm, model_completion=True).as_long()}
        ob.verify(ex, 'exactly-one-queue-is-drained-completely', len(drained) == 1 and left[drained[0]] == 0, d)
        if len(drained) != 1:
            return
        which = drained[0]
        k = len(ids[which])
        got = nacks if which == 'nackQueue' else acks
        other = acks if which == 'nackQueue' else nacks
        ob.verify(ex, 'drained-ids-are-' + ('nacked' if which == 'nackQueue' else 'acked') + '-and-nothing-else',
                  len(got) == k and len(other) == 0 and all(ex.eq(a, b) is True for a, b in zip(got, ids[which])), d)
        if which == 'nackQueue':
            want = z3.If(mm > 1, z3.If(mm - 10 * k < 1, 1, mm - 10 * k), mm)
        elif which == 'slowAckQueue':
            want = z3.If(mm > 1, z3.If(mm - k < 1, 1, mm - k), mm)
        else:
            want = z3.If(mm < 1000, z3.If(mm + k > 1000, 1000, mm + k), mm)
        new = ex.getf(conn, 'maxMessages')
        ob.verify(ex, 'window-update-rule', ex.eq(new, want), d)
        ob.verify(ex, 'window-stays-in-1..1000', And(new >= 1, new <= 1000), d)
        fc = ex.getf(r, 'FlowControl')
        changed = Not(ex.eq(new, mm))
        if fc is None:
            ob.verify(ex, 'flow-control-sent-when-window-changed', Not(changed), d)
        else:
            ob.verify(ex, 'flow-control-carries-the-new-window', And(ex.eq(ex.getf(fc, 'MaxMessages'), new), ex.eq(ex.getf(fc, 'MaxBytes'), 10_000_000)), d)
    chk.run('receive:adaptive-window', prog, harness, bounds={'window': '1..1000 (symbolic)', 'queued responses': '0..%d in each of the three queues at once' % (10 if chk.thorough else 3)}, max_paths=20000)


def auto_extend_ticker(chk, prog):
    """the push streamer's deadline-extension goroutine (MessageStreamer.Go, AutomaticNack=false) starts for every stored retry policy
    without crashing the process (time.NewTicker panics on a non-positive interval)"""
    from gosym import world, replay
    from gosym.core import GoPanic, PathAbort, Closure
    fn = world.find_closure(prog, '(*' + A + 'MessageStreamer).Go', ['time.NewTicker'])

    def new_ticker(ex, args, name):
        d = args[0]
        if ex.branch(d <= 0) if is_sym(d) else d <= 0:
            raise GoPanic('non-positive interval for NewTicker', name)
        ch = Chan(1, name='timer')
        t = ex.new_struct('time.Ticker', C=ch) if 'time.Ticker' in ex.prog.types else None
        return ex.new_ptr(t) if t is not None else Opaque('ticker', C=ch)

    class Stop(PathAbort):
        pass

    def harness(ex, ob):
        db = reldb.sym_db(ex, prog, {'Topic': 1, 'Subscription': 1, 'Message': 0, 'Delivery': 0}, exists=True)
        s = db.t['Subscription'][0]
        # what the API lets a client store: CreateSubscription keeps a minimum backoff only if it is > 0; UpdateSubscription stores any value
        ex.assume(And(s.isnull('deleted_at'), Or(s.isnull('min_backoff'), s.v['min_backoff'] > 0)))
        client = reldb.make_client(ex, db)
        ms = ex.new_ptr(ex.new_struct(A + 'MessageStreamer', Client=client, SubscriptionID=ex.new_ptr(s.v['id']), Logger=Opaque('logger')))

        def select(ex_, states, blocking, t):
            raise Stop('goroutine reached its wait loop')
        ex.xp.select = select
        d = lambda m: {'min_backoff_ns': None if replay.mval(m, zbool(s.isnull('min_backoff'))) is True else replay.mval(m, s.v['min_backoff'])}

        def rp(m, desc):
            rows = replay.rows_from_model(m, db.schema, db.t)
            for r in rows['Subscription']:
                r['push_endpoint'] = 'http://127.0.0.1:9/none'
            scn = {'base_now': '2000000000000000000', 'rows': rows, 'ops': [{'op': 'http_push_go', 'subscription_id': rows['Subscription'][0]['id'], 'timeout_ms': 300}]}
            out = replay.run_scenarios([scn])[0]
            path = replay.save_scenario('C19', 'auto-extend-ticker', scn, desc)
            if 'error' in out:
                return ('panic:' in out['error'] or 'goroutine ' in out['error']), path
            return ('panic' in out['results'][0]), path
        try:
            ex.call_value(world.bind_closure(ex, fn, ms=ex.new_ptr(ms), ctx=ex.new_ptr(new_context(ex)), mu=ex.new_ptr(ex.zero('sync.Mutex')), pending=ex.new_ptr(MapObj())), [])
        except Stop:
            ob.reached(ex)
            return
        except GoPanic as p:
            ob.verify(ex, 'deadline-extension-goroutine-starts-without-panic', False, d, replay=rp)
            return
        ob.reached(ex)
    chk.run('push-stream:deadline-extension-start', prog, harness, bounds={'min_backoff': 'absent or any stored value > 0'}, setup=world.setup,
            intr={'time.NewTicker': new_ticker}, max_paths=1000)


def pusher_lifecycle(chk, prog):
    """one round of the background http-pusher service from an arbitrary registry state: a pusher that has ended (for whatever reason:
    cleanly, cancelled, with an error) is forgotten, and every live push subscription has a running pusher afterwards - otherwise a
    subscription switched push -> pull -> push would never be pushed to again"""
    from gosym import reldb, world, stdlib
    from gosym.core import GoPanic, PathAbort, Opaque, MapObj, Iface, PyFunc
    from gosym.stdlib import GoContext, mkerr
    SVC = 'go.6river.tech/mmmbbb/services.'
    HP = SVC + 'httpPusher'
    MP = SVC + 'monitoredPusher'
    if HP not in prog.types or ('(*' + HP + ').startPushersOnce') not in prog.funcs:
        chk.inconclusive.append('http pusher service not found (renamed?): pusher lifecycle not checked')
        return

    def harness(ex, ob):
        db = reldb.sym_db(ex, prog, {'Topic': 1, 'Subscription': 1, 'Message': 0, 'Delivery': 0, 'Snapshot': 0}, exists=True)
        s0 = db.t['Subscription'][0]
        s0.v['name'] = 'projects/p/subscriptions/r0'
        ex.assume(Or(s0.isnull('push_endpoint'), Not(ex.eq(s0.v['push_endpoint'], ''))))
        is_push = And(s0.isnull('deleted_at'), Not(s0.isnull('push_endpoint')))
        # the registry: no entry for the subscription, a running pusher, or one that has ended with nil / Canceled / another error
        state = ['none', 'running', 'ended-nil', 'ended-canceled', 'ended-error'][ex.choose(5)]
        started, cancelled = [], []
        pushers = MapObj()
        waits = {}
        if state != 'none':
            ctxm = GoContext()
            if state != 'running':
                ctxm.done_ch.closed = True
            grp = ex.new_ptr(ex.zero('golang.org/x/sync/errgroup.Group'))
            canceled = ex.load(ex.global_ptr('context.Canceled', '*error'))
            waits[id(grp)] = None if state in ('running', 'ended-nil') else (canceled if state == 'ended-canceled' else mkerr('push', 'endpoint gone'))
            mp = ex.zero(MP)
            ex.setf(mp, 'Group', grp)
            ex.setf(mp, 'Context', Iface('context', ctxm))
            ex.setf(mp, 'cancel', PyFunc(lambda ex_, a: cancelled.append('old'), 'cancel'))
            pushers.ents.append([s0.v['id'], mp])

        def eg_wait(ex_, a, name):
            return waits.get(id(a[0]))

        def monitor(ex_, a, name):
            started.append(1)
            mp2 = ex_.zero(MP)
            ex_.setf(mp2, 'Context', Iface('context', GoContext()))
            ex_.setf(mp2, 'cancel', PyFunc(lambda e2, a2: cancelled.append('new'), 'cancel'))
            return mp2
        ex.intrinsics = dict(ex.intrinsics)
        ex.intrinsics['(*golang.org/x/sync/errgroup.Group).Wait'] = eg_wait
        ex.intrinsics[SVC + 'monitorPusher'] = monitor
        ex.intrinsics[A + 'NewHttpPusher'] = lambda ex_, a, name: None
        hp = ex.new_ptr(ex.new_struct(HP, client=reldb.make_client(ex, db), logger=Opaque('logger'), pushers=pushers))
        try:
            err = ex.call_named('(*' + HP + ').startPushersOnce', [hp, stdlib.new_context(ex)])
        except GoPanic as p:
            raise PathAbort('panic in the round: C16')
        if err is not None:
            raise PathAbort('round failed')
        ob.reached(ex)
        has_entry = len(pushers.ents) > 0
        d = lambda m: {'registry before': state, 'subscription is a live push subscription': str(m.eval(zbool(is_push), model_completion=True)),
                       'pushers started': len(started), 'entries after': len(pushers.ents)}
        if state.startswith('ended'):
            # the dead entry is gone (or replaced by a fresh pusher)
            ob.verify(ex, 'ended-pusher-is-forgotten', Or(Not(has_entry), len(started) > 0), d)
            ob.verify(ex, 'live-push-subscription-gets-a-new-pusher', Implies(is_push, len(started) == 1), d)
        elif state == 'none':
            ob.verify(ex, 'live-push-subscription-gets-a-pusher', ex.eq(len(started) == 1, is_push), d)
        else:
            ob.verify(ex, 'running-pusher-is-not-duplicated', len(started) == 0, d)
            ob.verify(ex, 'pusher-of-a-subscription-that-stopped-pushing-is-cancelled', Implies(Not(is_push), 'old' in cancelled), d)
    chk.run('pusher-service:round-restarts-ended-pushers', prog, harness, bounds={'subscriptions': 1, 'registry': 'no entry / running / ended with nil, Canceled or another error'},
            setup=world.setup, max_paths=20000)


if __name__ == '__main__':
    chk = Check('C19')
    prog = load_program()
    chk.repo_hash = prog.repo_hash
    send_obligations(chk, prog)
    receive_window(chk, prog)
    auto_extend_ticker(chk, prog)
    pusher_lifecycle(chk, prog)
    chk.assumptions += ['net/http, encoding/json, base64 and time formatting are opaque injective functions: the check decides which value flows into which envelope field, not the byte layout',
                        'the HTTP client returns an arbitrary status in 100..599 or a transport error after an arbitrary latency',
                        'acks/nacks continue through MessageStreamer (C03/C04/C06); the number of concurrent pushes is bounded by the window through flow control (C11)']
    chk.finish()
