"""handler-level harness helpers: the real gRPC handler methods of services/ on a symbolic request"""
import sys, os, re
sys.path.insert(0, os.path.dirname(os.path.dirname(os.path.abspath(__file__))))
import z3
from gosym.core import *
from gosym import reldb, world, stdlib, grpcmodel, replay
from gosym.protomodel import sym_message

SVC = 'go.6river.tech/mmmbbb/services.'
PB = 'cloud.google.com/go/pubsub/apiv1/pubsubpb.'
SERVERS = {'publisher': 'publisherServer', 'subscriber': 'subscriberServer'}


def list_handlers(prog):
    out = []
    for n, f in prog.funcs.items():
        m = re.match(r'^\(\*go\.6river\.tech/mmmbbb/services\.(publisherServer|subscriberServer)\)\.([A-Z]\w+)$', n)
        if m and len(f['params']) == 3 and 'pubsubpb.' in f['params'][2]['t'] and 'blocks' in f:
            out.append({'fn': n, 'service': 'publisher' if m.group(1) == 'publisherServer' else 'subscriber', 'method': m.group(2),
                        'req_type': f['params'][2]['t'].lstrip('*')})
    return sorted(out, key=lambda h: (h['service'], h['method']))


def call_handler(ex, db, h, req, ctx=None):
    client = reldb.make_client(ex, db)
    srv = ex.new_ptr(ex.new_struct(SVC + SERVERS[h['service']], client=client))
    r = ex.call_named(h['fn'], [srv, ctx or stdlib.new_context(ex), req])
    resp, err = r
    code = 0
    if err is not None:
        v = err.v if isinstance(err, Iface) else err
        code = v.code if isinstance(v, grpcmodel.StatusError) else -1     # -1: error that is not a gRPC status
    return resp, err, code


def valid_name(ex, kind, tag):
    """a resource name 'projects/<p>/<kind>/<leaf>' with non-empty slash-free p and leaf: returns (name, p, leaf)"""
    p, l = z3.String(tag + '.project'), z3.String(tag + '.leaf')
    ex.assume(z3.And(p != '', l != '', z3.Not(z3.Contains(p, '/')), z3.Not(z3.Contains(l, '/'))))
    return z3.Concat(z3.StringVal('projects/'), p, z3.StringVal('/' + kind + '/'), l), p, l


PROJECT_VOCAB = ['p', 'pp', 'p_', 'P']     # a prefix of another, a LIKE wildcard, a case variant


def name_rows(ex, db, entity, kind, vocab=PROJECT_VOCAB):
    """every row of `entity` carries a valid resource name of `kind` whose project is drawn from a small vocabulary
    (concrete strings: the solver stays on ids, flags and page parameters); returns [(row, project, leaf)]"""
    out = []
    for r in db.t[entity]:
        p = vocab[ex.choose(len(vocab))]
        l = 'r%d' % r.slot
        r.v['name'] = 'projects/%s/%s/%s' % (p, kind, l)
        out.append((r, p, l))
    return out


def req_to_json(ex, m, v, t=None):
    """concretise a symbolic request message to protojson-able python"""
    if v is None:
        return None
    if isinstance(v, Ptr):
        if v.nilc is not None and replay.mval(m, zbool(v.nilc)) is True:
            return None
        v = v.get()
    if isinstance(v, Struct):
        d = ex.prog.under(v.t)
        out = {}
        for i, f in enumerate(d['fields']):
            if f['name'] in ('state', 'sizeCache', 'unknownFields'):
                continue
            mm = re.search(r'json=(\w+)', f['tag']) or re.search(r'name=(\w+)', f['tag'])
            key = mm.group(1) if mm else f['name']
            x = req_to_json(ex, m, v.f[i], f['t'])
            if x is not None and ex.prog.under(f['t'])['k'] == 'iface' and isinstance(x, dict):
                out.update(x)        # oneof wrapper: its single field is inlined in the parent
                continue
            if x is not None and f['t'].endswith('timestamppb.Timestamp') and isinstance(x, dict):
                import datetime
                sec, ns = int(x.get('seconds', 0)), int(x.get('nanos', 0))
                try:
                    base = datetime.datetime(1970, 1, 1) + datetime.timedelta(seconds=sec)
                    x = '%04d' % base.year + base.strftime('-%m-%dT%H:%M:%S') + ('.%09d' % ns if 0 <= ns < 10**9 else '') + 'Z'
                except Exception:
                    x = None
            if x is not None:
                if f['t'].endswith('durationpb.Duration') and isinstance(x, dict):
                    sec, ns = int(x.get('seconds', 0)), int(x.get('nanos', 0))
                    if (sec >= 0 and ns >= 0) or (sec <= 0 and ns <= 0):
                        x = '%s%d.%09ds' % ('-' if (sec < 0 or ns < 0) else '', abs(sec), abs(ns))
                    else:
                        x = '%ds' % sec
                out[key] = x
        return out
    if isinstance(v, Slice):
        return [req_to_json(ex, m, x) for x in v.items()]
    if isinstance(v, SymMap):
        if v.nil is not False and replay.mval(m, zbool(v.nil)) is True:
            return None
        return replay.conc_map(m, v)
    if isinstance(v, OpaqueBytes):
        import base64
        return base64.b64encode(replay.payload_for(replay.mval(m, v.ident), replay.mval(m, v.len)).encode()).decode()
    if isinstance(v, Iface):
        return req_to_json(ex, m, v.v)
    if isinstance(v, FloatV):
        return 0
    x = replay.mval(m, v)
    if isinstance(x, int) and not isinstance(x, bool) and abs(x) > 2**53:
        return str(x)
    return x
