"""the same one-step transitions entered through the real gRPC handlers (services/), so that the request -> parameter mapping
(units, field selection, name resolution) is part of what is decided"""
import sys, os
sys.path.insert(0, os.path.dirname(os.path.dirname(os.path.abspath(__file__))))
import z3
from gosym.core import *
from gosym import reldb, world, stdlib, replay, grpcmodel
from gosym.step import Transition
from gosym.world import *
from checks.handlers import list_handlers, call_handler, PB, req_to_json

TS = 'google.golang.org/protobuf/types/known/timestamppb.Timestamp'
_H = {}


def handler(prog, method):
    if not _H:
        for h in list_handlers(prog):
            _H[h['method']] = h
    return _H[method]


class HTransition(Transition):
    service = 'subscriber'
    method = None
    sub_name = 'projects/p/subscriptions/r0'

    def prepare_db(self, ex, db):
        for i, s in enumerate(db.t['Subscription']):
            s.v['name'] = 'projects/p/subscriptions/r%d' % i
        for i, t in enumerate(db.t['Topic']):
            t.v['name'] = 'projects/p/topics/r%d' % i
        for i, s in enumerate(db.t['Snapshot']):
            s.v['name'] = 'projects/p/snapshots/r%d' % i

    def call(self, ex, db, a):
        req = self.request(ex, a)
        self._req = req
        resp, err, code = call_handler(ex, db, handler(ex.prog, self.method), req)
        self._code = code
        return err, self.result(ex, resp, err)

    def result(self, ex, resp, err):
        return {}

    def to_ops(self, a):
        return [{'op': 'grpc', 'service': self.service, 'method': self.method, 'request': self.request_json(a), 'timeout_ms': 3000}]

    def err_from_replay(self, results):
        r = results[-1]
        return None if r.get('code') in (None, 'OK') else r.get('err', 'error')


class AckH(HTransition):
    name, kind, method = 'grpc:Acknowledge', 'ack', 'Acknowledge'

    def make_args(self, ex, db):
        return {'ids': sym_uuid_list(ex, 'ackid', ex.choose(3))}

    def request(self, ex, a):
        return ex.new_ptr(ex.new_struct(PB + 'AcknowledgeRequest', Subscription=self.sub_name, AckIds=ex.mkslice([UUIDStr(i) for i in a['ids']])))

    def request_json(self, a):
        return {'subscription': self.sub_name, 'ackIds': [replay.uuid_str(i) for i in a['ids']]}


class ModAckH(HTransition):
    name, kind, method = 'grpc:ModifyAckDeadline', 'delay', 'ModifyAckDeadline'

    def make_args(self, ex, db):
        secs = z3.Int('ack_deadline_seconds')
        ex.assume(z3.And(secs >= -2**31, secs < 2**31))
        return {'ids': sym_uuid_list(ex, 'modid', ex.choose(3)), 'seconds': secs, 'delay': secs * 10**9}

    def request(self, ex, a):
        return ex.new_ptr(ex.new_struct(PB + 'ModifyAckDeadlineRequest', Subscription=self.sub_name, AckIds=ex.mkslice([UUIDStr(i) for i in a['ids']]),
                                         AckDeadlineSeconds=a['seconds']))

    def request_json(self, a):
        return {'subscription': self.sub_name, 'ackIds': [replay.uuid_str(i) for i in a['ids']], 'ackDeadlineSeconds': a['seconds']}

    def conc_args(self, m, args):
        out = Transition.conc_args(self, m, args)
        out['delay'] = out['seconds'] * 10**9
        return out


class SeekTimeH(HTransition):
    name, kind, method = 'grpc:Seek(time)', 'seek', 'Seek'
    sizes = {'Topic': 1, 'Subscription': 2, 'Message': 2, 'Delivery': 3}

    def make_args(self, ex, db):
        s, n = z3.Int('seek.seconds'), z3.Int('seek.nanos')
        ex.assume(z3.And(s >= reldb.TMIN // 10**9 + 1, s <= reldb.TMAX // 10**9 - 1, n >= 0, n < 10**9))
        return {'name': self.sub_name, 'id': None, 'seconds': s, 'nanos': n, 'time': s * 10**9 + n}

    def request(self, ex, a):
        ts = ex.new_ptr(ex.new_struct(TS, Seconds=a['seconds'], Nanos=a['nanos']))
        tgt = Iface('*' + PB + 'SeekRequest_Time', ex.new_ptr(ex.new_struct(PB + 'SeekRequest_Time', Time=ts)))
        return ex.new_ptr(ex.new_struct(PB + 'SeekRequest', Subscription=self.sub_name, Target=tgt))

    def request_json(self, a):
        return {'subscription': self.sub_name}

    def to_ops(self, a):
        ops = HTransition.to_ops(self, a)
        ops[0]['seek_time_model'] = str(a['time'])
        return ops

    def conc_args(self, m, args):
        out = Transition.conc_args(self, m, args)
        out['time'] = out['seconds'] * 10**9 + out['nanos']
        return out


class SeekSnapH(HTransition):
    name, kind, method = 'grpc:Seek(snapshot)', 'seek', 'Seek'
    sizes = {'Topic': 1, 'Subscription': 2, 'Message': 2, 'Delivery': 3, 'Snapshot': 1}
    exists = {'Topic': True, 'Subscription': True, 'Message': None, 'Delivery': None, 'Snapshot': True}

    def prepare_db(self, ex, db):
        HTransition.prepare_db(self, ex, db)
        for r in db.t['Snapshot']:
            r.v['acked_message_ids'] = tuple(sym_uuid_list(ex, 'snapack%d_' % r.slot, ex.choose(3)))

    def make_args(self, ex, db):
        return {'name': self.sub_name, 'id': None, 'snap_name': 'projects/p/snapshots/r0', 'snap_id': None}

    def request(self, ex, a):
        tgt = Iface('*' + PB + 'SeekRequest_Snapshot', ex.new_ptr(ex.new_struct(PB + 'SeekRequest_Snapshot', Snapshot=a['snap_name'])))
        return ex.new_ptr(ex.new_struct(PB + 'SeekRequest', Subscription=self.sub_name, Target=tgt))

    def request_json(self, a):
        return {'subscription': self.sub_name, 'snapshot': a['snap_name']}


class PullH(HTransition):
    name, kind, method = 'grpc:Pull', 'pull', 'Pull'
    sizes = {'Topic': 2, 'Subscription': 2, 'Message': 2, 'Delivery': 2}

    def prepare_db(self, ex, db):
        HTransition.prepare_db(self, ex, db)
        for s in db.t['Subscription']:
            ex.assume(s.isnull('max_delivery_attempts'))      # dead-lettering on pull is covered by the action-level obligations

    def make_args(self, ex, db):
        mm = z3.Int('max_messages')
        ex.assume(z3.And(mm >= 1, mm < 2**31))
        return {'name': self.sub_name, 'id': None, 'max_messages': mm, 'max_bytes': 10 * 1024 * 1024, 'strict': False}

    def request(self, ex, a):
        return ex.new_ptr(ex.new_struct(PB + 'PullRequest', Subscription=self.sub_name, MaxMessages=a['max_messages'], ReturnImmediately=True))

    def request_json(self, a):
        return {'subscription': self.sub_name, 'maxMessages': a['max_messages'], 'returnImmediately': True}

    def result(self, ex, resp, err):
        if err is not None or resp is None:
            return {}
        ds = []
        for rm in ex.getf(resp, 'ReceivedMessages').items():
            msg = ex.getf(rm, 'Message')
            ack, mid, pt = ex.getf(rm, 'AckId'), ex.getf(msg, 'MessageId'), ex.getf(msg, 'PublishTime')
            key = ex.getf(msg, 'OrderingKey')
            ds.append({'id': ack.v if isinstance(ack, UUIDStr) else ack, 'message_id': mid.v if isinstance(mid, UUIDStr) else mid,
                       'published_at': ex.getf(pt, 'Seconds') * 10**9 + ex.getf(pt, 'Nanos'), 'num_attempts': ex.getf(rm, 'DeliveryAttempt'),
                       'order_key_null': ex.eq(key, ''), 'order_key': key, 'payload': ex.getf(msg, 'Data'), 'attributes': ex.getf(msg, 'Attributes')})
        return {'deliveries': ds, 'num_dead_lettered': 0}

    def res_from_replay(self, results, args_c, out):
        import base64, datetime
        from gosym.reldb import Col
        r = results[-1].get('response')
        if results[-1].get('code') not in (None, 'OK') or r is None:
            return {}
        ds = []
        for rm in r.get('receivedMessages', []):
            msg = rm.get('message', {})
            pt = msg.get('publishTime', '1970-01-01T00:00:00Z')
            sec = pt[:19]
            frac = pt[19:].rstrip('Z').lstrip('.')
            t = int((datetime.datetime.strptime(sec, '%Y-%m-%dT%H:%M:%S') - datetime.datetime(1970, 1, 1)).total_seconds()) * 10**9 + int((frac + '000000000')[:9] or 0)
            data = base64.b64decode(msg.get('data', '')).decode('utf-8', 'replace')
            ds.append({'id': replay.uuid_int(rm['ackId']), 'message_id': replay.uuid_int(msg['messageId']), 'published_at': t,
                       'num_attempts': rm.get('deliveryAttempt', 0), 'order_key_null': msg.get('orderingKey', '') == '', 'order_key': msg.get('orderingKey', ''),
                       'payload': replay.conc_to_model(Col('', '', 'bytes', False, '', 0), data),
                       'attributes': replay.conc_to_model(Col('', '', 'map', False, '', 0), msg.get('attributes') or {})})
        return {'deliveries': ds, 'num_dead_lettered': 0}
