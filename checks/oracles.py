"""property oracles over one-step transitions.  Every oracle is a function (ex, S, T) -> [(label, formula)];
the same function is evaluated on the symbolic step and on the concrete step obtained by replay."""
import z3
from gosym.core import *
from gosym.world import *
from gosym import reldb

PRUNE_KINDS = ('prune',)


def D(S):
    return list(enumerate(S.pre['Delivery']))


def postrow(S, e, i):
    return S.post[e][i]


def new_rows(S, e):
    return S.post[e][len(S.pre[e]):]


def sub_of(S, ex, p, which='pre'):
    """[(cond, subrow)] the subscription row of delivery p"""
    return [(And(s.exists, ex.eq(s.v['id'], p.v['subscription_id'])), s) for s in getattr(S, which)['Subscription']]


def sub_live(S, ex, p, which='pre'):
    return Or(*[And(c, s.isnull('deleted_at')) for c, s in sub_of(S, ex, p, which)])


def any_now(S, v):
    return Or(*[v == t for t in S.nows])


def target_sub(S, ex, a, which='pre'):
    """[(cond,row)] live subscription rows addressed by (name,id) args"""
    out = []
    for s in getattr(S, which)['Subscription']:
        c = And(s.exists, s.isnull('deleted_at'))
        if a.get('id') is not None:
            c = And(c, ex.eq(s.v['id'], a['id']))
        if not (isinstance(a.get('name'), str) and a['name'] == ''):
            c = And(c, ex.eq(s.v['name'], a['name']))
        out.append((c, s))
    return out


def full_dl(s):
    return And(Not(s.isnull('max_delivery_attempts')), Not(s.isnull('dead_letter_topic_id')), s.v['max_delivery_attempts'] > 0)


def dl_due(S, ex, p):
    """p's subscription has a full dead-letter config and p.attempts >= max"""
    return Or(*[And(c, full_dl(s), p.v['attempts'] >= s.v['max_delivery_attempts']) for c, s in sub_of(S, ex, p)])


# ------------------------------------------------------------------ C03
def c03_finality(ex, S, T):
    """a completed delivery stays completed with the same data (or is pruned) - every entry except seeks"""
    out = []
    if T.kind == 'seek':
        return out
    for i, p in D(S):
        q = postrow(S, 'Delivery', i)
        done = And(p.exists, Not(p.isnull('completed_at')))
        same = And(q.exists, Not(q.isnull('completed_at')), ex.eq(q.v['completed_at'], p.v['completed_at']),
                   ex.eq(q.v['attempt_at'], p.v['attempt_at']), ex.eq(q.v['attempts'], p.v['attempts']), ex.eq(q.v['expires_at'], p.v['expires_at']))
        if T.kind in PRUNE_KINDS:
            same = Or(Not(q.exists), same)
        out.append(('completed-stays-completed[%d]' % i, Implies(done, same)))
    if T.kind == 'pull' and S.err is None and S.res:
        for k, r in enumerate(S.res['deliveries']):
            for i, p in D(S):
                out.append(('pull-never-returns-completed[%d,%d]' % (k, i), Implies(And(p.exists, ex.eq(r['id'], p.v['id'])), p.isnull('completed_at'))))
    return out


def c03_ack_contract(ex, S, T):
    out = [('ack-succeeds', S.err is None)]
    ids = S.args['ids']
    for i, p in D(S):
        q = postrow(S, 'Delivery', i)
        hit = And(p.exists, isin(ex, p.v['id'], ids), p.isnull('completed_at'))
        out.append(('acked-row-completed[%d]' % i, Implies(hit, And(q.exists, Not(q.isnull('completed_at')), any_now(S, q.v['completed_at'])))))
        out.append(('only-completed_at-changes[%d]' % i, row_same(ex, p, q, except_cols=('completed_at',))))
        out.append(('other-rows-untouched[%d]' % i, Implies(Not(hit), row_same(ex, p, q))))
    for e in ('Topic', 'Subscription', 'Message', 'Snapshot'):
        out.append(('table-untouched:' + e, table_same(ex, S.pre[e], S.post[e])))
    out.append(('no-new-deliveries', len(S.post['Delivery']) == len(S.pre['Delivery'])))
    return out


def c03_late_nack_modack(ex, S, T):
    """nack / modify-deadline for an already-acked id changes nothing about it"""
    out = []
    for i, p in D(S):
        q = postrow(S, 'Delivery', i)
        out.append(('acked-row-untouched[%d]' % i, Implies(And(p.exists, Not(p.isnull('completed_at'))), row_same(ex, p, q))))
    return out


# ------------------------------------------------------------------ C01
def permitted_end(ex, S, T, p):
    """the permitted terminators for an outstanding delivery p in this step"""
    a = S.args
    k = T.kind
    if k == 'ack':
        return isin(ex, p.v['id'], a['ids'])
    if k == 'seek':
        return Or(*[And(c, ex.eq(s.v['id'], p.v['subscription_id'])) for c, s in target_sub(S, ex, a)])
    if k == 'nack':
        return And(isin(ex, p.v['id'], a['ids']), dl_due(S, ex, p))
    if k == 'pull':
        return And(Or(*[And(c, ex.eq(s.v['id'], p.v['subscription_id'])) for c, s in target_sub(S, ex, a)]), dl_due(S, ex, p))
    if k == 'sweep':
        return dl_due(S, ex, p)
    return False


def c01_frame(ex, S, T):
    """nothing but a permitted terminator makes an outstanding delivery on a live subscription disappear"""
    out = []
    tN = S.nows[-1] if S.nows else None
    for i, p in D(S):
        q = postrow(S, 'Delivery', i)
        if tN is None:
            out.append(('outstanding-kept[%d]' % i, row_same(ex, p, q)))
            continue
        live_after = sub_live(S, ex, q, 'post')
        hyp = And(outstanding(p, tN), sub_live(S, ex, p), live_after)
        keep = And(q.exists, q.isnull('completed_at'), q.v['expires_at'] >= p.v['expires_at'],
                   ex.eq(q.v['message_id'], p.v['message_id']), ex.eq(q.v['subscription_id'], p.v['subscription_id']))
        out.append(('outstanding-kept[%d]' % i, Implies(hyp, Or(keep, permitted_end(ex, S, T, p)))))
        # the message it refers to is kept too
        msg_kept = Or(*[And(m.exists, ex.eq(m.v['id'], q.v['message_id'])) for m in S.post['Message']])
        out.append(('message-kept[%d]' % i, Implies(And(hyp, keep), msg_kept)))
    return out


def c01_publish(ex, S, T):
    """fan-out: one message row, exactly one delivery per live matching subscription of the topic"""
    out = []
    a = S.args
    if S.err is not None:
        # failed publish changes nothing
        for e in reldb.ENTITIES:
            out.append(('failed-publish-no-change:' + e, table_same(ex, S.pre[e], S.post[e])))
        return out
    # the topic addressed
    tconds = []
    for t in S.pre['Topic']:
        c = And(t.exists, t.isnull('deleted_at'))
        if a.get('id') is not None:
            c = And(c, ex.eq(t.v['id'], a['id']))
        if not (isinstance(a['name'], str) and a['name'] == ''):
            c = And(c, ex.eq(t.v['name'], a['name']))
        tconds.append((c, t))
    out.append(('topic-resolved', Or(*[c for c, _ in tconds])))
    nm = new_rows(S, 'Message')
    out.append(('one-message-row', len(nm) == 1))
    if len(nm) != 1:
        return out
    m = nm[0]
    out.append(('message-content', And(m.exists, val_eq(ex, m.v['payload'], a['payload']), val_eq(ex, m.v['attributes'], a['attrs']),
                                        Or(*[And(c, ex.eq(m.v['topic_id'], t.v['id'])) for c, t in tconds]),
                                        Implies(ex.eq(a['order_key'], ''), m.isnull('order_key')),
                                        Implies(Not(ex.eq(a['order_key'], '')), And(Not(m.isnull('order_key')), ex.eq(m.v['order_key'], a['order_key']))),
                                        any_now(S, m.v['published_at']))))
    out.append(('response-id', ex.eq(S.res['ID'], m.v['id'])))
    nd = new_rows(S, 'Delivery')
    valid, matches = F_filter_valid(), F_matches()
    for j, s in enumerate(S.pre['Subscription']):
        on_topic = Or(*[And(c, ex.eq(s.v['topic_id'], t.v['id'])) for c, t in tconds])
        flt = s.v['filter']
        passes = Or(s.isnull('filter'), ex.eq(flt, ''), And(valid(zstr(flt)), matches(zstr(flt), a['attrs'].has, a['attrs'].val)))
        want = And(s.exists, s.isnull('deleted_at'), on_topic, passes)
        mine = [And(n.exists, ex.eq(n.v['subscription_id'], s.v['id'])) for n in nd]
        cnt = sum([Ite(c, 1, 0) for c in mine]) if mine else 0
        out.append(('exactly-one-delivery-iff-wanted[sub %d]' % j, And(Implies(want, ex.eq(cnt, 1)), Implies(Not(want), ex.eq(cnt, 0)))))
        for n, c in zip(nd, mine):
            out.append(('delivery-stamps[sub %d]' % j, Implies(c, And(
                ex.eq(n.v['message_id'], m.v['id']), n.isnull('completed_at'), ex.eq(n.v['attempts'], 0),
                ex.eq(n.v['published_at'], m.v['published_at']),
                ex.eq(n.v['expires_at'], m.v['published_at'] + s.v['message_ttl']),
                ex.eq(n.v['attempt_at'], m.v['published_at'] + s.v['delivery_delay'])))))
    out.append(('num-deliveries', ex.eq(S.res['NumDeliveries'], len(nd))))
    for e in ('Topic', 'Subscription', 'Snapshot'):
        out.append(('publish-leaves:' + e, table_same(ex, S.pre[e], S.post[e])))
    for i, p in D(S):
        out.append(('publish-leaves-delivery[%d]' % i, row_same(ex, p, postrow(S, 'Delivery', i))))
    for i, p in enumerate(S.pre['Message']):
        out.append(('publish-leaves-message[%d]' % i, row_same(ex, p, S.post['Message'][i])))
    return out


def eligible(ex, S, p, t_lo, t_hi):
    """deliverable throughout [t_lo,t_hi] on its subscription (ordered or not)"""
    base = And(outstanding(p, t_hi), p.v['attempt_at'] <= t_lo)
    nb_ok = p.isnull('not_before_id')
    alts = [nb_ok]
    for o in S.pre['Delivery']:
        alts.append(And(Not(p.isnull('not_before_id')), o.exists, ex.eq(o.v['id'], p.v['not_before_id']),
                        Or(Not(o.isnull('completed_at')), o.v['expires_at'] <= t_lo)))
    ordered = Or(*[And(c, s.v['ordered_delivery']) for c, s in sub_of(S, ex, p)])
    return And(base, Or(Not(ordered), Or(*alts)))


def c01_pull_offers(ex, S, T):
    """a deliverable message is handed out by a pull with enough budget (or dead-lettered in that step)"""
    out = []
    a = S.args
    if S.err is not None or not S.res:
        return out
    t_lo, t_hi = S.nows[0], S.nows[-1]
    total = 0
    for m in S.pre['Message']:
        total = total + Ite(m.exists, m.v['payload'].len, 0)
    budget = And(a['max_messages'] >= len(S.pre['Delivery']), a['max_bytes'] >= total)
    tgt = target_sub(S, ex, a)
    res = S.res['deliveries']
    for i, p in D(S):
        mine = Or(*[And(c, ex.eq(s.v['id'], p.v['subscription_id'])) for c, s in tgt])
        inres = Or(*[ex.eq(r['id'], p.v['id']) for r in res])
        q = postrow(S, 'Delivery', i)
        out.append(('eligible-is-offered[%d]' % i, Implies(And(budget, mine, eligible(ex, S, p, t_lo, t_hi)),
                                                           Or(inres, And(dl_due(S, ex, p), Not(q.isnull('completed_at')))))))
        # lease never pushes attempt_at beyond now + maxBackoff + 1s (so a later pull meets it again)
        mxs = [And(c, q.v['attempt_at'] <= t_hi + Ite(And(Not(s.isnull('max_backoff')), s.v['max_backoff'] > 0), s.v['max_backoff'], MAX_DEFAULT) + 10**9 + 2)
               for c, s in sub_of(S, ex, p)]
        out.append(('lease-bounded[%d]' % i, Implies(And(p.exists, inres), Or(*mxs))))
    return out


# ------------------------------------------------------------------ C02
def c02_pull_scoping(ex, S, T):
    out = []
    a = S.args
    if S.err is not None or not S.res:
        return out
    res = S.res['deliveries']
    tgt = target_sub(S, ex, a)
    out.append(('at-most-max-messages', a['max_messages'] >= len(res)))
    for k in range(len(res)):
        for l in range(k + 1, len(res)):
            out.append(('no-repeat[%d,%d]' % (k, l), Not(ex.eq(res[k]['id'], res[l]['id']))))
    t_lo, t_hi = S.nows[0], S.nows[-1]
    for k, r in enumerate(res):
        conds = []
        for i, p in D(S):
            same = And(p.exists, ex.eq(p.v['id'], r['id']))
            mine = Or(*[And(c, ex.eq(s.v['id'], p.v['subscription_id'])) for c, s in tgt])
            msg = []
            for m in S.pre['Message']:
                msg.append(And(m.exists, ex.eq(m.v['id'], p.v['message_id']), ex.eq(r['message_id'], m.v['id']),
                               val_eq(ex, r['payload'], m.v['payload']), val_eq_attrs(ex, r['attributes'], m.v['attributes']),
                               ex.eq(r['published_at'], m.v['published_at']),
                               ex.eq(r['order_key_null'], m.isnull('order_key')),
                               Or(m.isnull('order_key'), ex.eq(r['order_key'], m.v['order_key']))))
            conds.append(And(same, mine, p.isnull('completed_at'), p.v['expires_at'] > t_lo, p.v['attempt_at'] <= t_hi,
                             Or(*msg), ex.eq(r['num_attempts'], p.v['attempts'] + 1)))
        out.append(('result-is-rightful-and-intact[%d]' % k, Or(*conds)))
    return out


def val_eq_attrs(ex, a, b):
    """attribute maps equal as maps (nil map == empty map)"""
    if isinstance(a, SymMap) and isinstance(b, SymMap):
        k = z3.String('attrkey!q')
        # extensional equality on the has-array, and on values wherever present
        return And(simp(a.has == b.has), simp(z3.ForAll([k], z3.Implies(z3.Select(a.has, k), z3.Select(a.val, k) == z3.Select(b.val, k)))) if not (a.val is b.val) else True)
    return val_eq(ex, a, b)


def c02_independence(ex, S, T):
    """rows of subscriptions / ids that were not addressed are bit-identical afterwards"""
    out = []
    a = S.args
    k = T.kind
    for i, p in D(S):
        q = postrow(S, 'Delivery', i)
        if k in ('ack', 'nack', 'delay'):
            addressed = isin(ex, p.v['id'], a['ids'])
        elif k in ('seek', 'pull'):
            addressed = Or(*[And(c, ex.eq(s.v['id'], p.v['subscription_id'])) for c, s in target_sub(S, ex, a)])
        elif k == 'delete-sub':
            addressed = False
        else:
            continue
        out.append(('unaddressed-delivery-untouched[%d]' % i, Implies(Not(addressed), row_same(ex, p, q))))
    if k in ('ack', 'nack', 'delay', 'seek', 'pull', 'delete-sub'):
        for i, p in enumerate(S.pre['Message']):
            out.append(('messages-immutable[%d]' % i, row_same(ex, p, S.post['Message'][i])))
        for j, s in enumerate(S.pre['Subscription']):
            q = S.post['Subscription'][j]
            if k in ('pull',):
                addressed = Or(*[And(c, ex.eq(x.v['id'], s.v['id'])) for c, x in target_sub(S, ex, a)])
                out.append(('other-subscription-untouched[%d]' % j, Implies(Not(addressed), row_same(ex, s, q))))
            elif k == 'delete-sub':
                addressed = And(s.exists, s.isnull('deleted_at'), ex.eq(s.v['name'], a['name']))
                out.append(('other-subscription-untouched[%d]' % j, Implies(Not(addressed), row_same(ex, s, q))))
            else:
                out.append(('subscriptions-untouched[%d]' % j, row_same(ex, s, q)))
    return out
