"""property oracles over one-step transitions.  Every oracle is a function (ex, S, T) -> [(label, formula)];
the same function is evaluated on the symbolic step and on the concrete step obtained by replay."""
import z3
from gosym.core import *
from gosym.world import *
from gosym import reldb

PRUNE_KINDS = ('prune',)


def D(S):
    return list(enumerate(S.pre['Delivery']))


def postrow(S, e, i):
    return S.post[e][i]


def new_rows(S, e):
    return S.post[e][len(S.pre[e]):]


def sub_of(S, ex, p, which='pre'):
    """[(cond, subrow)] the subscription row of delivery p"""
    return [(And(s.exists, ex.eq(s.v['id'], p.v['subscription_id'])), s) for s in getattr(S, which)['Subscription']]


def sub_live(S, ex, p, which='pre'):
    return Or(*[And(c, s.isnull('deleted_at')) for c, s in sub_of(S, ex, p, which)])


def any_now(S, v):
    return Or(*[v == t for t in S.nows])


def target_sub(S, ex, a, which='pre'):
    """[(cond,row)] live subscription rows addressed by (name,id) args"""
    out = []
    for s in getattr(S, which)['Subscription']:
        c = And(s.exists, s.isnull('deleted_at'))
        if a.get('id') is not None:
            c = And(c, ex.eq(s.v['id'], a['id']))
        if not (isinstance(a.get('name'), str) and a['name'] == ''):
            c = And(c, ex.eq(s.v['name'], a['name']))
        out.append((c, s))
    return out


def full_dl(s):
    return And(Not(s.isnull('max_delivery_attempts')), Not(s.isnull('dead_letter_topic_id')), s.v['max_delivery_attempts'] > 0)


def dl_due(S, ex, p):
    """p's subscription has a full dead-letter config and p.attempts >= max"""
    return Or(*[And(c, full_dl(s), p.v['attempts'] >= s.v['max_delivery_attempts']) for c, s in sub_of(S, ex, p)])


# ------------------------------------------------------------------ C03
def c03_finality(ex, S, T):
    """a completed delivery stays completed with the same data (or is pruned) - every entry except seeks"""
    out = []
    for i, p in D(S):
        q = postrow(S, 'Delivery', i)
        done = And(p.exists, Not(p.isnull('completed_at')))
        if T.kind == 'seek':
            # only a seek of that very subscription may rewind an acknowledgement
            done = And(done, Not(Or(*[And(c, ex.eq(s.v['id'], p.v['subscription_id'])) for c, s in target_sub(S, ex, S.args)])))
        same = And(q.exists, Not(q.isnull('completed_at')), ex.eq(q.v['completed_at'], p.v['completed_at']),
                   ex.eq(q.v['attempt_at'], p.v['attempt_at']), ex.eq(q.v['attempts'], p.v['attempts']), ex.eq(q.v['expires_at'], p.v['expires_at']))
        if T.kind in PRUNE_KINDS:
            same = Or(Not(q.exists), same)
        out.append(('completed-stays-completed[%d]' % i, Implies(done, same)))
    if T.kind == 'pull' and S.err is None and S.res:
        for k, r in enumerate(S.res['deliveries']):
            for i, p in D(S):
                out.append(('pull-never-returns-completed[%d,%d]' % (k, i), Implies(And(p.exists, ex.eq(r['id'], p.v['id'])), p.isnull('completed_at'))))
    return out


def c03_ack_contract(ex, S, T):
    out = [('ack-succeeds', S.err is None)]
    ids = S.args['ids']
    for i, p in D(S):
        q = postrow(S, 'Delivery', i)
        hit = And(p.exists, isin(ex, p.v['id'], ids), p.isnull('completed_at'))
        out.append(('acked-row-completed[%d]' % i, Implies(hit, And(q.exists, Not(q.isnull('completed_at')), any_now(S, q.v['completed_at'])))))
        out.append(('only-completed_at-changes[%d]' % i, row_same(ex, p, q, except_cols=('completed_at',))))
        out.append(('other-rows-untouched[%d]' % i, Implies(Not(hit), row_same(ex, p, q))))
    for e in ('Topic', 'Subscription', 'Message', 'Snapshot'):
        out.append(('table-untouched:' + e, table_same(ex, S.pre[e], S.post[e])))
    out.append(('no-new-deliveries', len(S.post['Delivery']) == len(S.pre['Delivery'])))
    return out


def c03_late_nack_modack(ex, S, T):
    """nack / modify-deadline for an already-acked id changes nothing about it"""
    out = []
    for i, p in D(S):
        q = postrow(S, 'Delivery', i)
        out.append(('acked-row-untouched[%d]' % i, Implies(And(p.exists, Not(p.isnull('completed_at'))), row_same(ex, p, q))))
    return out


# ------------------------------------------------------------------ C01
def permitted_end(ex, S, T, p):
    """the permitted terminators for an outstanding delivery p in this step"""
    a = S.args
    k = T.kind
    if k == 'ack':
        return isin(ex, p.v['id'], a['ids'])
    if k == 'seek':
        on_target = Or(*[And(c, ex.eq(s.v['id'], p.v['subscription_id'])) for c, s in target_sub(S, ex, a)])
        if 'time' in a:
            # a seek to a time may end only what was published at or before that time
            return And(on_target, p.v['published_at'] <= a['time'])
        if 'snap_name' in a or 'snap_id' in a:
            # a seek to a snapshot may end only what the snapshot records as acknowledged
            covered = []
            for sn in S.pre['Snapshot']:
                c = sn.exists
                if a.get('snap_id') is not None:
                    c = And(c, ex.eq(sn.v['id'], a['snap_id']))
                if not (isinstance(a.get('snap_name'), str) and a['snap_name'] == ''):
                    c = And(c, ex.eq(sn.v['name'], a['snap_name']))
                covered.append(And(c, Or(p.v['published_at'] < sn.v['acked_messages_before'], isin(ex, p.v['message_id'], list(sn.v['acked_message_ids'])))))
            return And(on_target, Or(*covered))
        return on_target
    if k == 'nack':
        return And(isin(ex, p.v['id'], a['ids']), dl_due(S, ex, p))
    if k == 'pull':
        return And(Or(*[And(c, ex.eq(s.v['id'], p.v['subscription_id'])) for c, s in target_sub(S, ex, a)]), dl_due(S, ex, p))
    if k == 'sweep':
        return dl_due(S, ex, p)
    return False


def inv_preserved(ex, S, T):
    """the representation invariant every one-step obligation assumes of its pre-state holds again in the post-state (so it holds in
    every reachable state: the obligations quantify over a superset of the reachable states, not over a set that misses some)"""
    if getattr(S, 'concrete', False):
        return []
    shim = type('DBShim', (), {'schema': ex.xp.schema, 't': S.post})()
    out = []
    # stored publish stamps come from earlier clock readings: none lies in the future of this step
    past = And(*[Implies(r.exists, r.v['published_at'] <= S.nows[0]) for e in ('Delivery', 'Message') for r in S.pre[e]]) if S.nows else True
    for lbl, f in reldb.inv_formulas(ex, shim, S.post):
        if f is not True and lbl != 'attempts-in-range':      # the upper bound on attempts is a modelling bound, not an invariant
            out.append(('invariant-preserved:' + lbl, Implies(past, f)))
    return out


def c01_frame(ex, S, T):
    """nothing but a permitted terminator makes an outstanding delivery on a live subscription disappear"""
    out = []
    tN = S.nows[-1] if S.nows else None
    for i, p in D(S):
        q = postrow(S, 'Delivery', i)
        if tN is None:
            out.append(('outstanding-kept[%d]' % i, row_same(ex, p, q)))
            continue
        live_after = sub_live(S, ex, q, 'post')
        hyp = And(outstanding(p, tN), sub_live(S, ex, p), live_after)
        keep = And(q.exists, q.isnull('completed_at'), q.v['expires_at'] >= p.v['expires_at'],
                   ex.eq(q.v['message_id'], p.v['message_id']), ex.eq(q.v['subscription_id'], p.v['subscription_id']))
        out.append(('outstanding-kept[%d]' % i, Implies(hyp, Or(keep, permitted_end(ex, S, T, p)))))
        # the message it refers to is kept too
        msg_kept = Or(*[And(m.exists, ex.eq(m.v['id'], q.v['message_id'])) for m in S.post['Message']])
        out.append(('message-kept[%d]' % i, Implies(And(hyp, keep), msg_kept)))
    return out


def c01_publish(ex, S, T):
    """fan-out: one message row, exactly one delivery per live matching subscription of the topic"""
    out = []
    a = S.args
    if S.err is not None:
        # failed publish changes nothing
        for e in reldb.ENTITIES:
            out.append(('failed-publish-no-change:' + e, table_same(ex, S.pre[e], S.post[e])))
        return out
    # the topic addressed
    tconds = []
    for t in S.pre['Topic']:
        c = And(t.exists, t.isnull('deleted_at'))
        if a.get('id') is not None:
            c = And(c, ex.eq(t.v['id'], a['id']))
        if not (isinstance(a['name'], str) and a['name'] == ''):
            c = And(c, ex.eq(t.v['name'], a['name']))
        tconds.append((c, t))
    out.append(('topic-resolved', Or(*[c for c, _ in tconds])))
    nm = new_rows(S, 'Message')
    out.append(('one-message-row', len(nm) == 1))
    if len(nm) != 1:
        return out
    m = nm[0]
    out.append(('message-content', And(m.exists, val_eq(ex, m.v['payload'], a['payload']), val_eq(ex, m.v['attributes'], a['attrs']),
                                        Or(*[And(c, ex.eq(m.v['topic_id'], t.v['id'])) for c, t in tconds]),
                                        Implies(ex.eq(a['order_key'], ''), m.isnull('order_key')),
                                        Implies(Not(ex.eq(a['order_key'], '')), And(Not(m.isnull('order_key')), ex.eq(m.v['order_key'], a['order_key']))),
                                        any_now(S, m.v['published_at']))))
    out.append(('response-id', ex.eq(S.res['ID'], m.v['id'])))
    nd = new_rows(S, 'Delivery')
    valid, matches = F_filter_valid(), F_matches()
    for j, s in enumerate(S.pre['Subscription']):
        on_topic = Or(*[And(c, ex.eq(s.v['topic_id'], t.v['id'])) for c, t in tconds])
        flt = s.v['filter']
        passes = Or(s.isnull('filter'), ex.eq(flt, ''), And(valid(zstr(flt)), matches(zstr(flt), a['attrs'].has, a['attrs'].val)))
        want = And(s.exists, s.isnull('deleted_at'), on_topic, passes)
        mine = [And(n.exists, ex.eq(n.v['subscription_id'], s.v['id'])) for n in nd]
        cnt = sum([Ite(c, 1, 0) for c in mine]) if mine else 0
        out.append(('exactly-one-delivery-iff-wanted[sub %d]' % j, And(Implies(want, ex.eq(cnt, 1)), Implies(Not(want), ex.eq(cnt, 0)))))
        for n, c in zip(nd, mine):
            out.append(('delivery-stamps[sub %d]' % j, Implies(c, And(
                ex.eq(n.v['message_id'], m.v['id']), n.isnull('completed_at'), ex.eq(n.v['attempts'], 0),
                ex.eq(n.v['published_at'], m.v['published_at']),
                ex.eq(n.v['expires_at'], m.v['published_at'] + s.v['message_ttl']),
                ex.eq(n.v['attempt_at'], m.v['published_at'] + s.v['delivery_delay'])))))
    out.append(('num-deliveries', ex.eq(S.res['NumDeliveries'], len(nd))))
    for e in ('Topic', 'Subscription', 'Snapshot'):
        out.append(('publish-leaves:' + e, table_same(ex, S.pre[e], S.post[e])))
    for i, p in D(S):
        out.append(('publish-leaves-delivery[%d]' % i, row_same(ex, p, postrow(S, 'Delivery', i))))
    for i, p in enumerate(S.pre['Message']):
        out.append(('publish-leaves-message[%d]' % i, row_same(ex, p, S.post['Message'][i])))
    return out


def eligible(ex, S, p, t_lo, t_hi):
    """deliverable throughout [t_lo,t_hi] on its subscription (ordered or not)"""
    base = And(outstanding(p, t_hi), p.v['attempt_at'] <= t_lo)
    nb_ok = p.isnull('not_before_id')
    alts = [nb_ok]
    for o in S.pre['Delivery']:
        alts.append(And(Not(p.isnull('not_before_id')), o.exists, ex.eq(o.v['id'], p.v['not_before_id']),
                        Or(Not(o.isnull('completed_at')), o.v['expires_at'] <= t_lo)))
    ordered = Or(*[And(c, s.v['ordered_delivery']) for c, s in sub_of(S, ex, p)])
    return And(base, Or(Not(ordered), Or(*alts)))


def c01_pull_offers(ex, S, T):
    """a deliverable message is handed out by a pull with enough budget (or dead-lettered in that step)"""
    out = []
    a = S.args
    if S.err is not None or not S.res:
        return out
    t_lo, t_hi = S.nows[0], S.nows[-1]
    total = 0
    for p in S.pre['Delivery']:
        ln = 0
        for m in S.pre['Message']:
            ln = Ite(And(m.exists, ex.eq(m.v['id'], p.v['message_id'])), m.v['payload'].len, ln)
        total = total + Ite(p.exists, ln, 0)
    budget = And(a['max_messages'] >= len(S.pre['Delivery']), a['max_bytes'] >= total)
    tgt = target_sub(S, ex, a)
    res = S.res['deliveries']
    for i, p in D(S):
        mine = Or(*[And(c, ex.eq(s.v['id'], p.v['subscription_id'])) for c, s in tgt])
        inres = Or(*[ex.eq(r['id'], p.v['id']) for r in res])
        q = postrow(S, 'Delivery', i)
        out.append(('eligible-is-offered[%d]' % i, Implies(And(budget, mine, eligible(ex, S, p, t_lo, t_hi)),
                                                           Or(inres, And(dl_due(S, ex, p), Not(q.isnull('completed_at')))))))
        # lease never pushes attempt_at beyond now + maxBackoff + 1s (so a later pull meets it again)
        mxs = [And(c, q.v['attempt_at'] <= t_hi + Ite(And(Not(s.isnull('max_backoff')), s.v['max_backoff'] > 0), s.v['max_backoff'], MAX_DEFAULT) + 2 * 10**9)
               for c, s in sub_of(S, ex, p)]
        out.append(('lease-bounded[%d]' % i, Implies(And(p.exists, inres), Or(*mxs))))
    return out


# ------------------------------------------------------------------ C02
def c02_pull_scoping(ex, S, T):
    out = []
    a = S.args
    if S.err is not None or not S.res:
        return out
    res = S.res['deliveries']
    tgt = target_sub(S, ex, a)
    out.append(('at-most-max-messages', a['max_messages'] >= len(res)))
    for k in range(len(res)):
        for l in range(k + 1, len(res)):
            out.append(('no-repeat[%d,%d]' % (k, l), Not(ex.eq(res[k]['id'], res[l]['id']))))
    t_lo, t_hi = S.nows[0], S.nows[-1]
    for k, r in enumerate(res):
        conds = []
        for i, p in D(S):
            same = And(p.exists, ex.eq(p.v['id'], r['id']))
            mine = Or(*[And(c, ex.eq(s.v['id'], p.v['subscription_id'])) for c, s in tgt])
            msg = []
            for m in S.pre['Message']:
                msg.append(And(m.exists, ex.eq(m.v['id'], p.v['message_id']), ex.eq(r['message_id'], m.v['id']),
                               val_eq(ex, r['payload'], m.v['payload']), val_eq_attrs(ex, r['attributes'], m.v['attributes']),
                               ex.eq(r['published_at'], m.v['published_at']),
                               # an absent ordering key and the empty key are the same thing on the wire
                               ex.eq(Ite(r['order_key_null'], '', r['order_key']), Ite(m.isnull('order_key'), '', m.v['order_key']))))
            conds.append(And(same, mine, p.isnull('completed_at'), p.v['expires_at'] > t_lo, p.v['attempt_at'] <= t_hi,
                             Or(*msg), ex.eq(r['num_attempts'], p.v['attempts'] + 1)))
        out.append(('result-is-rightful-and-intact[%d]' % k, Or(*conds)))
    return out


def val_eq_attrs(ex, a, b):
    """attribute maps equal as maps (nil map == empty map)"""
    if isinstance(a, SymMap) and isinstance(b, SymMap):
        k = z3.String('attrkey!q')
        # extensional equality on the has-array, and on values wherever present
        return And(simp(a.has == b.has), simp(z3.ForAll([k], z3.Implies(z3.Select(a.has, k), z3.Select(a.val, k) == z3.Select(b.val, k)))) if not (a.val is b.val) else True)
    return val_eq(ex, a, b)


def c02_independence(ex, S, T):
    """rows of subscriptions / ids that were not addressed are bit-identical afterwards"""
    out = []
    a = S.args
    k = T.kind
    for i, p in D(S):
        q = postrow(S, 'Delivery', i)
        if k in ('ack', 'nack', 'delay'):
            addressed = isin(ex, p.v['id'], a['ids'])
        elif k in ('seek', 'pull'):
            addressed = Or(*[And(c, ex.eq(s.v['id'], p.v['subscription_id'])) for c, s in target_sub(S, ex, a)])
        elif k == 'delete-sub':
            addressed = False
        else:
            continue
        out.append(('unaddressed-delivery-untouched[%d]' % i, Implies(Not(addressed), row_same(ex, p, q))))
    if k in ('ack', 'nack', 'delay', 'seek', 'pull', 'delete-sub'):
        for i, p in enumerate(S.pre['Message']):
            out.append(('messages-immutable[%d]' % i, row_same(ex, p, S.post['Message'][i])))
        for j, s in enumerate(S.pre['Subscription']):
            q = S.post['Subscription'][j]
            if k in ('pull',):
                addressed = Or(*[And(c, ex.eq(x.v['id'], s.v['id'])) for c, x in target_sub(S, ex, a)])
                out.append(('other-subscription-untouched[%d]' % j, Implies(Not(addressed), row_same(ex, s, q))))
            elif k == 'delete-sub':
                addressed = And(s.exists, s.isnull('deleted_at'), ex.eq(s.v['name'], a['name']))
                out.append(('other-subscription-untouched[%d]' % j, Implies(Not(addressed), row_same(ex, s, q))))
            else:
                out.append(('subscriptions-untouched[%d]' % j, row_same(ex, s, q)))
    return out


# ------------------------------------------------------------------ C06
def moved(p, q):
    return And(p.exists, p.isnull('completed_at'), q.exists, Not(q.isnull('completed_at')))


def passes_filter(s, attrs):
    flt = s.v['filter']
    return Or(s.isnull('filter'), flt == '' if is_sym(flt) else flt == '',
              And(F_filter_valid()(zstr(flt)), F_matches()(zstr(flt), attrs.has, attrs.val)))


def c06_deadletter(ex, S, T):
    out = []
    a = S.args
    k = T.kind
    if S.err is not None:
        return out
    t0, tN = S.nows[0], S.nows[-1]
    res_ids = [r['id'] for r in S.res.get('deliveries', [])] if k == 'pull' else []
    tgt = target_sub(S, ex, a) if k == 'pull' else []
    mv = []
    for i, p in D(S):
        q = postrow(S, 'Delivery', i)
        m = moved(p, q)
        mv.append(m)
        due = dl_due(S, ex, p)
        weak = And(p.v['expires_at'] > t0)
        strict = And(p.exists, p.isnull('completed_at'), p.v['expires_at'] > tN)
        if k == 'nack':
            hit = isin(ex, p.v['id'], a['ids'])
            out.append(('dead-lettered-only-when-due[%d]' % i, Implies(m, And(hit, due, weak))))
            out.append(('due-is-dead-lettered[%d]' % i, Implies(And(strict, hit, due), m)))
            # not due: rescheduled by the backoff, still outstanding
            resched = Or(*[And(c, Or(*[ex.eq(q.v['attempt_at'], t + F_nominal()(zint(eff_min(s)), zint(eff_max(s)), zint(p.v['attempts'])) +
                                            F_fuzz()(zint(s.v['id']), zint(p.v['attempts']))) for t in S.nows]))
                             for c, s in sub_of(S, ex, p)])
            out.append(('nack-reschedules-by-backoff[%d]' % i, Implies(And(strict, hit, Not(due)), And(q.isnull('completed_at'), resched))))
        elif k == 'pull':
            mine = Or(*[And(c, ex.eq(s.v['id'], p.v['subscription_id'])) for c, s in tgt])
            inres = Or(*[ex.eq(r, p.v['id']) for r in res_ids])
            out.append(('dead-lettered-only-when-due[%d]' % i, Implies(m, And(mine, due, weak, p.v['attempt_at'] <= tN))))
            out.append(('never-delivered-beyond-N[%d]' % i, Implies(And(p.exists, inres), Not(due))))
            out.append(('forwarded-not-also-delivered[%d]' % i, Not(And(m, inres))))
            out.append(('delivery-counts-attempt[%d]' % i, Implies(And(p.exists, inres), And(ex.eq(q.v['attempts'], p.v['attempts'] + 1), q.isnull('completed_at')))))
        elif k == 'sweep':
            live = sub_live(S, ex, p)
            out.append(('dead-lettered-only-when-due[%d]' % i, Implies(m, And(due, weak, live, p.v['attempt_at'] <= tN))))
            out.append(('due-is-swept[%d]' % i, Implies(And(a['max'] >= len(S.pre['Delivery']), strict, due, live, p.v['attempt_at'] <= t0), m)))
        out.append(('completed-at-now[%d]' % i, Implies(m, any_now(S, q.v['completed_at']))))
    # forwarding: per (message, dead-letter subscription) the number of new deliveries equals the number of moved sources
    nd = new_rows(S, 'Delivery')
    for mi, msg in enumerate(S.pre['Message']):
        for j, s2 in enumerate(S.pre['Subscription']):
            expected = 0
            for i, p in D(S):
                dlt_ok = []
                for c, s in sub_of(S, ex, p):
                    for t in S.pre['Topic']:
                        dlt_ok.append(And(c, Not(s.isnull('dead_letter_topic_id')), t.exists, t.isnull('deleted_at'),
                                          ex.eq(t.v['id'], s.v['dead_letter_topic_id']), ex.eq(s2.v['topic_id'], t.v['id'])))
                want = And(mv[i], ex.eq(p.v['message_id'], msg.v['id']), msg.exists, s2.exists, s2.isnull('deleted_at'),
                           Or(*dlt_ok), passes_filter(s2, msg.v['attributes']))
                expected = expected + Ite(want, 1, 0)
            actual = 0
            for n in nd:
                actual = actual + Ite(And(n.exists, ex.eq(n.v['message_id'], msg.v['id']), ex.eq(n.v['subscription_id'], s2.v['id'])), 1, 0)
            out.append(('forwarded-exactly-once[msg %d -> sub %d]' % (mi, j), ex.eq(expected, actual)))
    for ni, n in enumerate(nd):
        stamps = []
        for s2 in S.pre['Subscription']:
            stamps.append(And(ex.eq(n.v['subscription_id'], s2.v['id']), n.isnull('completed_at'), ex.eq(n.v['attempts'], 0),
                              Or(*[And(ex.eq(n.v['expires_at'], t + s2.v['message_ttl']), ex.eq(n.v['attempt_at'], t + s2.v['delivery_delay'])) for t in S.nows])))
        out.append(('forwarded-copy-is-fresh[%d]' % ni, Implies(n.exists, Or(*stamps))))
    for i, p in enumerate(S.pre['Message']):
        out.append(('message-row-shared-not-copied[%d]' % i, row_same(ex, p, S.post['Message'][i])))
    out.append(('no-new-message-rows', len(S.post['Message']) == len(S.pre['Message'])))
    return out


def eff_min(s):
    return Ite(And(Not(s.isnull('min_backoff')), s.v['min_backoff'] > 0), s.v['min_backoff'], MIN_DEFAULT)


def eff_max(s):
    return Ite(And(Not(s.isnull('max_backoff')), s.v['max_backoff'] > 0), s.v['max_backoff'], MAX_DEFAULT)


# ------------------------------------------------------------------ C04 (transition part)
def c04_lease(ex, S, T):
    out = []
    a = S.args
    k = T.kind
    if S.err is not None:
        return out
    t0, tN = S.nows[0], S.nows[-1]
    if k == 'pull':
        res = S.res.get('deliveries', [])
        for i, p in D(S):
            q = postrow(S, 'Delivery', i)
            for r in res:
                hit = And(p.exists, ex.eq(r['id'], p.v['id']))
                lease = Or(*[And(c, Or(*[ex.eq(q.v['attempt_at'], t + F_nominal()(zint(eff_min(s)), zint(eff_max(s)), zint(p.v['attempts'] + 1)) +
                                               F_fuzz()(zint(s.v['id']), zint(p.v['attempts'] + 1))) for t in S.nows]))
                             for c, s in sub_of(S, ex, p)])
                out.append(('lease[%d]' % i, Implies(hit, And(ex.eq(q.v['attempts'], p.v['attempts'] + 1), ex.eq(r['num_attempts'], p.v['attempts'] + 1),
                                                                 lease, Not(q.isnull('last_attempted_at')), any_now(S, q.v['last_attempted_at']),
                                                                 q.v['attempt_at'] >= t0))))
            inres = Or(*[ex.eq(r['id'], p.v['id']) for r in res])
            mv = moved(p, q)
            out.append(('not-delivered-rows-keep-lease[%d]' % i, Implies(And(p.exists, Not(inres), Not(mv)), row_same(ex, p, q))))
            # exclusivity: nothing whose deadline is still in the future is handed out
            out.append(('leased-not-handed-out[%d]' % i, Implies(And(p.exists, p.v['attempt_at'] > tN), Not(inres))))
    if k == 'delay':
        d = a['delay']
        for i, p in D(S):
            q = postrow(S, 'Delivery', i)
            hit = And(p.exists, isin(ex, p.v['id'], a['ids']), p.isnull('completed_at'))
            pos = Or(*[And(Implies(p.v['attempt_at'] < t + d, ex.eq(q.v['attempt_at'], t + d)),
                           Implies(p.v['attempt_at'] >= t + d, ex.eq(q.v['attempt_at'], p.v['attempt_at']))) for t in S.nows])
            neg = Or(*[ex.eq(q.v['attempt_at'], t + d) for t in S.nows])
            out.append(('positive-deadline-only-postpones[%d]' % i, Implies(And(hit, d > 0), And(pos, q.v['attempt_at'] >= p.v['attempt_at']))))
            out.append(('zero-deadline-makes-due-now[%d]' % i, Implies(And(hit, d <= 0), And(neg, q.v['attempt_at'] <= tN))))
            out.append(('only-attempt_at-changes[%d]' % i, row_same(ex, p, q, except_cols=('attempt_at',))))
            out.append(('unaddressed-untouched[%d]' % i, Implies(Not(hit), row_same(ex, p, q))))
    return out


# ------------------------------------------------------------------ C13
def c13_seek_time(ex, S, T):
    out = []
    a = S.args
    tgt = target_sub(S, ex, a)
    if S.err is not None:
        for e in reldb.ENTITIES:
            out.append(('failed-seek-no-change:' + e, table_same(ex, S.pre[e], S.post[e])))
        return out
    out.append(('subscription-resolved', Or(*[c for c, _ in tgt])))
    t0, tN = S.nows[0], S.nows[-1]
    Tm = a['time']
    for i, p in D(S):
        q = postrow(S, 'Delivery', i)
        for c, s in tgt:
            mine = And(c, p.exists, ex.eq(s.v['id'], p.v['subscription_id']))
            retained = p.v['expires_at'] >= tN
            gone = p.v['expires_at'] < t0
            after = p.v['published_at'] > Tm
            done = Not(p.isnull('completed_at'))
            revived = And(q.exists, q.isnull('completed_at'), any_now(S, q.v['attempt_at']),
                          Or(*[ex.eq(q.v['expires_at'], t + s.v['message_ttl']) for t in S.nows]))
            out.append(('later-acked-message-revived[%d]' % i, Implies(And(mine, retained, after, done), revived)))
            out.append(('later-unacked-message-stays-outstanding[%d]' % i, Implies(And(mine, retained, after, Not(done)), And(q.exists, q.isnull('completed_at')))))
            out.append(('earlier-message-acknowledged[%d]' % i, Implies(And(mine, retained, Not(after)), And(q.exists, Not(q.isnull('completed_at'))))))
            out.append(('earlier-acked-untouched[%d]' % i, Implies(And(mine, Not(after), done), row_same(ex, p, q))))
            out.append(('unretained-untouched[%d]' % i, Implies(And(mine, gone), row_same(ex, p, q))))
            out.append(('identity-kept[%d]' % i, Implies(mine, row_same(ex, p, q, except_cols=('completed_at', 'attempt_at', 'expires_at')))))
        other = Not(Or(*[And(c, ex.eq(s.v['id'], p.v['subscription_id'])) for c, s in tgt]))
        out.append(('other-subscriptions-untouched[%d]' % i, Implies(other, row_same(ex, p, q))))
    out.append(('no-new-deliveries', len(S.post['Delivery']) == len(S.pre['Delivery'])))
    for e in ('Topic', 'Subscription', 'Message', 'Snapshot'):
        out.append(('seek-leaves:' + e, table_same(ex, S.pre[e], S.post[e])))
    return out


def c13_seek_snapshot(ex, S, T):
    out = []
    a = S.args
    tgt = target_sub(S, ex, a)
    if S.err is not None:
        for e in reldb.ENTITIES:
            out.append(('failed-seek-no-change:' + e, table_same(ex, S.pre[e], S.post[e])))
        return out
    snaps = []
    for sn in S.pre['Snapshot']:
        c = sn.exists
        if a.get('snap_id') is not None:
            c = And(c, ex.eq(sn.v['id'], a['snap_id']))
        if not (isinstance(a.get('snap_name'), str) and a['snap_name'] == ''):
            c = And(c, ex.eq(sn.v['name'], a['snap_name']))
        snaps.append((c, sn))
    out.append(('subscription-resolved', Or(*[c for c, _ in tgt])))
    out.append(('snapshot-resolved', Or(*[c for c, _ in snaps])))
    t0, tN = S.nows[0], S.nows[-1]
    for i, p in D(S):
        q = postrow(S, 'Delivery', i)
        for c, s in tgt:
            for c2, sn in snaps:
                mine = And(c, c2, p.exists, ex.eq(s.v['id'], p.v['subscription_id']))
                acked_in_snap = Or(p.v['published_at'] < sn.v['acked_messages_before'], isin(ex, p.v['message_id'], list(sn.v['acked_message_ids'])))
                done = Not(p.isnull('completed_at'))
                retained = p.v['expires_at'] >= tN
                revived = And(q.exists, q.isnull('completed_at'), any_now(S, q.v['attempt_at']),
                              Or(*[ex.eq(q.v['expires_at'], t + s.v['message_ttl']) for t in S.nows]))
                out.append(('unacked-at-snapshot-restored[%d]' % i, Implies(And(mine, Not(acked_in_snap), done), revived)))
                out.append(('unacked-at-snapshot-stays-outstanding[%d]' % i, Implies(And(mine, Not(acked_in_snap), Not(done)), And(q.exists, q.isnull('completed_at')))))
                out.append(('acked-at-snapshot-acknowledged[%d]' % i, Implies(And(mine, acked_in_snap, retained), And(q.exists, Not(q.isnull('completed_at'))))))
                out.append(('acked-before-stays-acked-untouched[%d]' % i, Implies(And(mine, acked_in_snap, done), row_same(ex, p, q))))
                out.append(('identity-kept[%d]' % i, Implies(mine, row_same(ex, p, q, except_cols=('completed_at', 'attempt_at', 'expires_at')))))
        other = Not(Or(*[And(c, ex.eq(s.v['id'], p.v['subscription_id'])) for c, s in tgt]))
        out.append(('other-subscriptions-untouched[%d]' % i, Implies(other, row_same(ex, p, q))))
    out.append(('no-new-deliveries', len(S.post['Delivery']) == len(S.pre['Delivery'])))
    for e in ('Topic', 'Subscription', 'Message', 'Snapshot'):
        out.append(('seek-leaves:' + e, table_same(ex, S.pre[e], S.post[e])))
    return out


def c13_create_snapshot(ex, S, T):
    """the snapshot records exactly which retained messages of the subscription are acknowledged"""
    out = []
    a = S.args
    if S.err is not None:
        for e in reldb.ENTITIES:
            out.append(('failed-snapshot-no-change:' + e, table_same(ex, S.pre[e], S.post[e])))
        return out
    ns = new_rows(S, 'Snapshot')
    out.append(('one-snapshot-row', len(ns) == 1))
    if len(ns) != 1:
        return out
    sn = ns[0]
    t0, tN = S.nows[0], S.nows[-1]
    subs = [(And(s.exists, s.isnull('deleted_at'), ex.eq(s.v['name'], a['sub_name'])), s) for s in S.pre['Subscription']]
    out.append(('snapshot-identity', And(sn.exists, ex.eq(sn.v['name'], a['snap_name']), Or(*[And(c, ex.eq(sn.v['topic_id'], s.v['topic_id'])) for c, s in subs]),
                                          ex.eq(S.res['SnapshotID'], sn.v['id']))))
    L = list(sn.v['acked_message_ids'])
    for i, p in D(S):
        for c, s in subs:
            mine = And(c, p.exists, ex.eq(s.v['id'], p.v['subscription_id']))
            # the claim is for ordinary (non dead-letter) deliveries: stamped with their message's publish time, message on the sub's topic
            ordinary = Or(*[And(m.exists, ex.eq(m.v['id'], p.v['message_id']), ex.eq(m.v['published_at'], p.v['published_at']),
                                ex.eq(m.v['topic_id'], s.v['topic_id'])) for m in S.pre['Message']])
            # distinct deliveries of the subscription carry distinct messages
            uniq = And(*[Not(And(o.exists, ex.eq(o.v['subscription_id'], p.v['subscription_id']), ex.eq(o.v['message_id'], p.v['message_id'])))
                         for j, o in D(S) if j != i])
            retained = And(p.v['expires_at'] > tN, p.v['published_at'] < t0)    # timestamp ties with the snapshot instant are outside the claim
            acked_in_snap = Or(p.v['published_at'] < sn.v['acked_messages_before'], isin(ex, p.v['message_id'], L))
            done = Not(p.isnull('completed_at'))
            out.append(('snapshot-records-ack-state[%d]' % i, Implies(And(mine, ordinary, uniq, retained), ex.eq(acked_in_snap, done))))
    for i, p in D(S):
        out.append(('snapshot-leaves-delivery[%d]' % i, row_same(ex, p, postrow(S, 'Delivery', i))))
    for e in ('Topic', 'Subscription', 'Message'):
        out.append(('snapshot-leaves:' + e, table_same(ex, S.pre[e], S.post[e])))
    return out


# ------------------------------------------------------------------ C14
def c14_pull_refresh(ex, S, T):
    out = []
    a = S.args
    tgt = target_sub(S, ex, a)
    if S.err is not None:
        return out
    t0 = S.nows[0]
    out.append(('pull-resolves-live-subscription-only', Or(*[c for c, _ in tgt])))
    for j, s in enumerate(S.pre['Subscription']):
        q = S.post['Subscription'][j]
        mine = Or(*[And(c, ex.eq(x.v['id'], s.v['id'])) for c, x in tgt])
        out.append(('pull-restarts-expiration-clock[%d]' % j, Implies(mine, And(q.v['expires_at'] >= t0 + s.v['ttl'], row_same(ex, s, q, except_cols=('expires_at',))))))
    t_lo, t_hi = S.nows[0], S.nows[-1]
    for k, r in enumerate(S.res.get('deliveries', [])):
        conds = [And(p.exists, ex.eq(p.v['id'], r['id']), p.v['expires_at'] > t_lo, p.v['attempt_at'] <= t_hi) for i, p in D(S)]
        out.append(('never-after-retention-never-before-deadline[%d]' % k, Or(*conds)))
    return out


def c14_create_sub(ex, S, T):
    """a new subscription's idle-expiry clock starts at creation with the configured expiration ttl (not the message retention)"""
    out = []
    if S.err is not None:
        return out
    for k, n in enumerate(new_rows(S, 'Subscription')):
        out.append(('new-subscription-expires-ttl-after-creation[%d]' % k,
                    Implies(n.exists, And(ex.eq(n.v['ttl'], S.args['ttl']), ex.eq(n.v['message_ttl'], S.args['message_ttl']),
                                          Or(*[ex.eq(n.v['expires_at'], t + S.args['ttl']) for t in S.nows]) if S.nows else False))))
    return out


def c14_expire(ex, S, T):
    out = []
    a = S.args
    if S.err is not None:
        return out
    t0, tN = S.nows[0], S.nows[-1]
    for j, s in enumerate(S.pre['Subscription']):
        q = S.post['Subscription'][j]
        newly = And(s.exists, s.isnull('deleted_at'), q.exists, Not(q.isnull('deleted_at')))
        out.append(('expired-only-after-full-ttl[%d]' % j, Implies(newly, And(s.v['expires_at'] < tN, q.isnull('live'), any_now(S, q.v['deleted_at'])))))
        out.append(('all-expired-are-deleted[%d]' % j, Implies(And(a['max_delete'] >= len(S.pre['Subscription']), s.exists, s.isnull('deleted_at'), s.v['expires_at'] < t0), newly)))
        out.append(('unexpired-untouched[%d]' % j, Implies(Not(newly), row_same(ex, s, q))))
        out.append(('only-deletion-markers-change[%d]' % j, row_same(ex, s, q, except_cols=('deleted_at', 'live'))))
    for e in ('Topic', 'Message', 'Delivery', 'Snapshot'):
        out.append(('expiry-leaves:' + e, table_same(ex, S.pre[e], S.post[e])))
    return out


def resolves_only_live(ex, S, T):
    """entries that take a subscription / topic name succeed only if a live row carries it"""
    out = []
    a = S.args
    if S.err is not None:
        return out
    if T.kind in ('seek', 'pull'):
        out.append(('resolves-live-subscription-only', Or(*[c for c, _ in target_sub(S, ex, a)])))
    if T.kind == 'create-snapshot':
        out.append(('resolves-live-subscription-only', Or(*[And(s.exists, s.isnull('deleted_at'), ex.eq(s.v['name'], a['sub_name'])) for s in S.pre['Subscription']])))
    return out


# ------------------------------------------------------------------ C15
def elig_state(ex, rows, subs, p, t):
    base = And(p.exists, p.isnull('completed_at'), p.v['expires_at'] > t, p.v['attempt_at'] <= t)
    alts = [p.isnull('not_before_id')]
    for o in rows:
        alts.append(And(Not(p.isnull('not_before_id')), o.exists, ex.eq(o.v['id'], p.v['not_before_id']),
                        Or(Not(o.isnull('completed_at')), o.v['expires_at'] <= t)))
    # a dangling link cannot exist (FK); an unresolved non-null link blocks (inner semantics of the LEFT JOIN: NULL columns -> not eligible)
    ordered = Or(*[And(s.exists, ex.eq(s.v['id'], p.v['subscription_id']), s.v['ordered_delivery']) for s in subs])
    live = Or(*[And(s.exists, ex.eq(s.v['id'], p.v['subscription_id']), s.isnull('deleted_at')) for s in subs])
    return And(base, live, Or(Not(ordered), Or(*alts)))


def c15_prune(ex, S, T):
    out = []
    a = S.args
    if S.err is not None:
        for e in reldb.ENTITIES:
            out.append(('failed-job-no-change:' + e, table_same(ex, S.pre[e], S.post[e])))
        return out
    t0, tN = S.nows[0], S.nows[-1]
    age = a['min_age']
    job = T.job
    for i, p in D(S):
        q = postrow(S, 'Delivery', i)
        removed = And(p.exists, Not(q.exists))
        sub_deleted = Or(*[And(c, Not(s.isnull('deleted_at'))) for c, s in sub_of(S, ex, p)])
        dead = Or(Not(p.isnull('completed_at')), p.v['expires_at'] < tN, sub_deleted)
        out.append(('only-dead-deliveries-removed[%d]' % i, Implies(removed, dead)))
        if job == 'prune_completed_deliveries':
            out.append(('age-threshold-respected[%d]' % i, Implies(removed, And(Not(p.isnull('completed_at')), p.v['completed_at'] <= tN - age))))
        if job == 'prune_deleted_subscription_deliveries':
            out.append(('age-threshold-respected[%d]' % i, Implies(removed, Or(*[And(c, Not(s.isnull('deleted_at')), s.v['deleted_at'] <= tN - age) for c, s in sub_of(S, ex, p)]))))
        if job not in ('prune_completed_deliveries', 'prune_expired_deliveries', 'prune_deleted_subscription_deliveries'):
            out.append(('job-leaves-deliveries[%d]' % i, row_same(ex, p, q)))
        else:
            out.append(('survivors-unchanged[%d]' % i, Implies(q.exists, row_same(ex, p, q, except_cols=('not_before_id',)))))
            # ordered delivery undisturbed: eligibility at any instant after the job equals eligibility before it
            t = z3.Int('probe_t')
            e1 = elig_state(ex, S.pre['Delivery'], S.pre['Subscription'], p, t)
            e2 = elig_state(ex, S.post['Delivery'], S.post['Subscription'], q, t)
            out.append(('eligibility-undisturbed[%d]' % i, Implies(And(q.exists, t >= tN), ex.eq(e1, e2))))
    for i, m in enumerate(S.pre['Message']):
        q = S.post['Message'][i]
        removed = And(m.exists, Not(q.exists))
        has_deliv = Or(*[And(d.exists, ex.eq(d.v['message_id'], m.v['id'])) for d in S.pre['Delivery']])
        out.append(('only-undelivered-old-messages-removed[%d]' % i, Implies(removed, And(Not(has_deliv), m.v['published_at'] <= tN - age))))
        out.append(('surviving-message-unchanged[%d]' % i, Implies(q.exists, row_same(ex, m, q))))
    if job == 'prune_completed_messages':
        # progress: a round with a limit of at least one removes something whenever a message is reclaimable - a round that removes
        # nothing leaves the state as it was, so every later round does the same and the job never converges (live messages, older or
        # not, must not use up the batch)
        recl = [And(m.exists, m.v['published_at'] <= t0 - age,
                    Not(Or(*[And(d.exists, ex.eq(d.v['message_id'], m.v['id'])) for d in S.pre['Delivery']]))) for m in S.pre['Message']]
        gone = [And(m.exists, Not(S.post['Message'][i].exists)) for i, m in enumerate(S.pre['Message'])]
        out.append(('reclaimable-message-means-progress', Implies(And(Or(*recl), a['max_delete'] >= 1), Or(*gone))))
    for j, s in enumerate(S.pre['Subscription']):
        q = S.post['Subscription'][j]
        removed = And(s.exists, Not(q.exists))
        has_deliv = Or(*[And(d.exists, ex.eq(d.v['subscription_id'], s.v['id'])) for d in S.pre['Delivery']])
        out.append(('only-deleted-empty-subscriptions-removed[%d]' % j, Implies(removed, And(Not(s.isnull('deleted_at')), s.v['deleted_at'] <= tN - age, Not(has_deliv)))))
        if job != 'delete_expired_subscriptions':
            out.append(('surviving-subscription-unchanged[%d]' % j, Implies(q.exists, row_same(ex, s, q, except_cols=('dead_letter_topic_id',)))))
    for j, tp in enumerate(S.pre['Topic']):
        q = S.post['Topic'][j]
        removed = And(tp.exists, Not(q.exists))
        has_sub = Or(*[And(s.exists, ex.eq(s.v['topic_id'], tp.v['id'])) for s in S.pre['Subscription']])
        out.append(('only-deleted-empty-topics-removed[%d]' % j, Implies(removed, And(Not(tp.isnull('deleted_at')), tp.v['deleted_at'] <= tN - age, Not(has_sub)))))
        out.append(('surviving-topic-unchanged[%d]' % j, Implies(q.exists, row_same(ex, tp, q))))
    for e in reldb.ENTITIES:
        out.append(('job-creates-nothing:' + e, len(S.post[e]) == len(S.pre[e])))
    return out


# ------------------------------------------------------------------ C05 (inductive lemma at publish / forward)
def c05_predecessor(ex, S, T):
    """a new keyed delivery on an ordered subscription is chained behind the latest-published live same-key delivery"""
    out = []
    if S.err is not None or T.kind != 'publish':
        return out
    a = S.args
    nm = new_rows(S, 'Message')
    if len(nm) != 1:
        return out
    m = nm[0]
    for n_i, n in enumerate(new_rows(S, 'Delivery')):
        for j, s in enumerate(S.pre['Subscription']):
            mine = And(n.exists, ex.eq(n.v['subscription_id'], s.v['id']), s.exists)
            keyed = And(s.v['ordered_delivery'], Not(m.isnull('order_key')), Not(ex.eq(m.v['order_key'], '')))
            cands = []
            for i, d in D(S):
                same_key = Or(*[And(x.exists, ex.eq(x.v['id'], d.v['message_id']), Not(x.isnull('order_key')), ex.eq(x.v['order_key'], m.v['order_key']),
                                    ex.eq(x.v['topic_id'], m.v['topic_id'])) for x in S.pre['Message']])
                cands.append(And(d.exists, ex.eq(d.v['subscription_id'], s.v['id']), d.v['expires_at'] > m.v['published_at'], same_key))
            # publish timestamps of the candidates are distinct (ties are outside the claim)
            distinct = And(*[Implies(And(cands[i], cands[k]), Not(ex.eq(S.pre['Delivery'][i].v['published_at'], S.pre['Delivery'][k].v['published_at'])))
                             for i in range(len(cands)) for k in range(i + 1, len(cands))])
            none = Not(Or(*cands))
            out.append(('unkeyed-or-unordered-has-no-predecessor[%d,sub %d]' % (n_i, j), Implies(And(mine, Not(keyed)), n.isnull('not_before_id'))))
            out.append(('no-live-same-key-delivery-no-predecessor[%d,sub %d]' % (n_i, j), Implies(And(mine, keyed, none), n.isnull('not_before_id'))))
            for i, d in D(S):
                latest = And(cands[i], *[Implies(cands[k], S.pre['Delivery'][k].v['published_at'] < d.v['published_at']) for k in range(len(cands)) if k != i])
                out.append(('chained-behind-latest-same-key[%d,sub %d,%d]' % (n_i, j, i),
                            Implies(And(mine, keyed, distinct, latest), And(Not(n.isnull('not_before_id')), ex.eq(n.v['not_before_id'], d.v['id'])))))
    return out
