"""driver for the transition-based checks: a property = {transition kind/name -> [oracle functions]}"""
import sys, os
sys.path.insert(0, os.path.dirname(os.path.dirname(os.path.abspath(__file__))))
from gosym.runner import Check, load_program
from gosym.step import run_transition
import checks.transitions as tr
from checks.c03 import COMMON_ASSUMPTIONS


def run_property(chk, prog, select, extra_assumptions=()):
    """select(T) -> list of oracle functions (empty: skip)"""
    chk.repo_hash = prog.repo_hash
    chk.assumptions += COMMON_ASSUMPTIONS + list(extra_assumptions)
    only = [a[5:] for a in sys.argv[1:] if a.startswith('only=')]
    import checks.htransitions as ht
    for T in tr.all_transitions() + [ht.AckH(), ht.ModAckH(), ht.SeekTimeH(), ht.SeekSnapH(), ht.PullH()]:
        if only and T.name not in only:
            continue
        fs = select(T)
        if not fs:
            continue
        T.oracle = (lambda fs, T: lambda ex, S: [x for f in fs for x in f(ex, S, T)])(fs, T)
        run_transition(chk, prog, T, max_paths=400000)
    chk.bounds.update({'tables': 'per obligation (see per_obligation.bounds)', 'steps': 1,
                       'pre-state': 'arbitrary rows satisfying the representation invariant'})
