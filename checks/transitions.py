"""the mutating entry points of mmmbbb as one-step transitions on reldb, shared by C01/C02/C03/C06/C13/C14/C15"""
import sys, os
sys.path.insert(0, os.path.dirname(os.path.dirname(os.path.abspath(__file__))))
import z3
from gosym.core import *
from gosym import reldb, world, stdlib, replay
from gosym.step import Transition, Step
from gosym.world import *

ACT = A


def params(ex, tname, **kw):
    return ex.new_struct(ACT + tname, **kw)


def name_or_id_args(ex, db, prefix, entity='Subscription'):
    """(name string, id *uuid) the way handlers address a resource: id, name, or both"""
    mode = ex.choose(3)
    name = z3.String(prefix + 'name') if mode != 0 else ''
    idv = z3.Int(prefix + 'id')
    ex.assume(z3.And(idv >= 0, idv < 2**128))
    if mode != 0:
        ex.assume(name != '')
    return {'name': name, 'id': idv if mode != 1 else None}


def one_dl_subscriber(ex, db):
    """quick-tier bound: a dead-letter topic has at most one live subscription"""
    subs = db.t['Subscription']
    for s in subs:
        on = [And(x.exists, x.isnull('deleted_at'), Not(s.isnull('dead_letter_topic_id')), x.v['topic_id'] == s.v['dead_letter_topic_id']) for x in subs]
        for i in range(len(on)):
            for j in range(i + 1, len(on)):
                ex.assume(Not(And(on[i], on[j])))


class DLBound:
    # the thorough tier lifts the one-dead-letter-subscriber bound where dead-lettering is the subject (C06) and for the loss
    # property (C01); the other properties re-run the same transitions and keep the bound (the lifted exploration is 8x the cost)
    LIFT = ('C01', 'C06')

    def prepare_db(self, ex, db):
        if not (self.thorough and getattr(self, 'prop', None) in self.LIFT):
            one_dl_subscriber(ex, db)
            self.bounds = {'dead-letter subscribers': '<= 1 live subscription per dead-letter topic'}


def idptr(ex, v):
    return None if v is None else ex.new_ptr(v)


class Ack(Transition):
    name = 'ack'
    kind = 'ack'

    def make_args(self, ex, db):
        n = ex.choose(4)
        return {'ids': sym_uuid_list(ex, 'ackid', n)}

    def call(self, ex, db, a):
        act, tx, err = run_action(ex, db, ACT + 'NewAckDeliveries', [ex.mkslice(list(a['ids']))], '(*' + ACT + 'AckDeliveries).Execute')
        rp = action_results(ex, act)
        return err, {'NumAcked': ex.getf(rp, 'NumAcked')} if rp is not None else {}

    def to_ops(self, a):
        return [{'op': 'ack', 'ids': [replay.uuid_str(i) for i in a['ids']]}]


class Nack(DLBound, Transition):
    name = 'nack'
    kind = 'nack'
    sizes = {'Topic': 2, 'Subscription': 2, 'Message': 1, 'Delivery': 2}
    sizes_thorough = {'Topic': 2, 'Subscription': 2, 'Message': 2, 'Delivery': 2}     # thorough also lifts the one-dead-letter-subscriber bound

    def make_args(self, ex, db):
        n = ex.choose(3)
        return {'ids': sym_uuid_list(ex, 'nackid', n)}

    def call(self, ex, db, a):
        act, tx, err = run_action(ex, db, ACT + 'NewNackDeliveries', [ex.mkslice(list(a['ids']))], '(*' + ACT + 'NackDeliveries).Execute')
        rp = action_results(ex, act)
        return err, {'NumNacked': ex.getf(rp, 'NumNacked'), 'NumDeadLettered': ex.getf(rp, 'NumDeadLettered')} if rp is not None else {}

    def to_ops(self, a):
        return [{'op': 'nack', 'ids': [replay.uuid_str(i) for i in a['ids']]}]


class Delay(Transition):
    name = 'modify-deadline'
    kind = 'delay'

    def make_args(self, ex, db):
        n = ex.choose(3)
        d = z3.Int('delay')
        ex.assume(z3.And(d > -2**55, d < 2**55))
        return {'ids': sym_uuid_list(ex, 'modid', n), 'delay': d}

    def call(self, ex, db, a):
        p = params(ex, 'DelayDeliveriesParams', IDs=ex.mkslice(list(a['ids'])), Delay=a['delay'])
        act, tx, err = run_action(ex, db, ACT + 'NewDelayDeliveries', [p], '(*' + ACT + 'DelayDeliveries).Execute')
        rp = action_results(ex, act)
        return err, {'NumDelayed': ex.getf(rp, 'NumDelayed')} if rp is not None else {}

    def to_ops(self, a):
        return [{'op': 'delay', 'ids': [replay.uuid_str(i) for i in a['ids']], 'delay': str(a['delay'])}]


class Publish(Transition):
    name = 'publish'
    kind = 'publish'
    sizes = {'Topic': 2, 'Subscription': 2, 'Message': 1, 'Delivery': 2}
    sizes_thorough = {'Topic': 2, 'Subscription': 3, 'Message': 1, 'Delivery': 2}

    def make_args(self, ex, db):
        a = name_or_id_args(ex, db, 'topic', 'Topic')
        a['payload'] = reldb.sym_value(ex, 'bytes', 'pub.payload')
        ex.assume(a['payload'].len >= 1)
        a['attrs'] = reldb.sym_value(ex, 'map', 'pub.attrs')
        a['order_key'] = z3.String('pub.order_key')
        return a

    def call(self, ex, db, a):
        p = params(ex, 'PublishMessageParams', TopicName=a['name'], TopicID=idptr(ex, a['id']), Payload=a['payload'],
                   Attributes=a['attrs'], OrderKey=a['order_key'])
        act, tx, err = run_action(ex, db, ACT + 'NewPublishMessage', [p], '(*' + ACT + 'PublishMessage).Execute')
        rp = action_results(ex, act)
        return err, {'ID': ex.getf(rp, 'ID'), 'NumDeliveries': ex.getf(rp, 'NumDeliveries')} if rp is not None else {}

    def to_ops(self, a):
        return [{'op': 'publish', 'topic_name': a['name'] or None, 'topic_id': replay.uuid_str(a['id']) if a['id'] is not None else None,
                 'payload': a['payload'], 'attributes': a['attrs'], 'order_key': a['order_key']}]

    def res_from_replay(self, results, args_c, out):
        r = results[-1].get('result') or {}
        if 'ID' in r:
            r = dict(r, ID=replay.uuid_int(r['ID']))
        return r


class Pull(DLBound, Transition):
    name = 'pull'
    kind = 'pull'
    sizes = {'Topic': 2, 'Subscription': 2, 'Message': 2, 'Delivery': 2}
    sizes_thorough = None      # thorough lifts the one-dead-letter-subscriber bound (same table sizes)

    def make_args(self, ex, db):
        a = name_or_id_args(ex, db, 'sub')
        mm, mb = z3.Int('max_messages'), z3.Int('max_bytes')
        ex.assume(z3.And(mm >= 1, mm < 2**31, mb >= 1, mb < 2**31))
        a.update(max_messages=mm, max_bytes=mb, strict=z3.Bool('max_bytes_strict'))
        return a

    def call(self, ex, db, a):
        p = params(ex, 'GetSubscriptionMessagesParams', Name=a['name'], ID=idptr(ex, a['id']), MaxMessages=a['max_messages'],
                   MaxBytes=a['max_bytes'], MaxBytesStrict=a['strict'], MaxWait=50 * 10**6)
        act, tx, err = run_action(ex, db, ACT + 'NewGetSubscriptionMessages', [p], '(*' + ACT + 'GetSubscriptionMessages).Execute')
        rp = action_results(ex, act)
        res = {}
        if rp is not None:
            ds = []
            for dp in ex.getf(rp, 'Deliveries').items():
                ok = ex.getf(dp, 'OrderKey')
                ds.append({'id': ex.getf(dp, 'ID'), 'message_id': ex.getf(dp, 'MessageID'), 'published_at': ex.getf(dp, 'PublishedAt'),
                           'num_attempts': ex.getf(dp, 'NumAttempts'), 'next_attempt_at': ex.getf(dp, 'NextAttemptAt'),
                           'order_key_null': (True if ok is None else (ok.nilc if ok.nilc is not None else False)),
                           'order_key': ('' if ok is None else ok.get()),
                           'payload': ex.getf(dp, 'Payload'), 'attributes': ex.getf(dp, 'Attributes')})
            res = {'deliveries': ds, 'num_dead_lettered': ex.getf(rp, 'NumDeadLettered')}
        return err, res

    def to_ops(self, a):
        return [{'op': 'pull', 'name': a['name'] or None, 'id': replay.uuid_str(a['id']) if a['id'] is not None else None,
                 'max_messages': a['max_messages'], 'max_bytes': a['max_bytes'], 'max_bytes_strict': a['strict'], 'max_wait': str(50 * 10**6)}]

    def res_from_replay(self, results, args_c, out):
        r = results[-1].get('result')
        if not r:
            return {}
        from gosym.reldb import Col
        ds = []
        for d in r['deliveries']:
            ds.append({'id': replay.uuid_int(d['id']), 'message_id': replay.uuid_int(d['message_id']), 'published_at': int(d['published_at']),
                       'num_attempts': d['num_attempts'], 'next_attempt_at': int(d['next_attempt_at']),
                       'order_key_null': d['order_key'] is None, 'order_key': d['order_key'] or '',
                       'payload': replay.conc_to_model(Col('', '', 'bytes', False, '', 0), d['payload']),
                       'attributes': replay.conc_to_model(Col('', '', 'map', False, '', 0), d['attributes'] or {})})
        return {'deliveries': ds, 'num_dead_lettered': r['num_dead_lettered']}


class SeekTime(Transition):
    name = 'seek-to-time'
    kind = 'seek'
    sizes = {'Topic': 1, 'Subscription': 2, 'Message': 2, 'Delivery': 3}

    def make_args(self, ex, db):
        a = name_or_id_args(ex, db, 'sub')
        t = z3.Int('seek.time')
        ex.assume(z3.And(t >= reldb.TMIN, t <= reldb.TMAX))
        a['time'] = t
        return a

    def call(self, ex, db, a):
        p = params(ex, 'SeekSubscriptionToTimeParams', Name=a['name'], ID=idptr(ex, a['id']), Time=a['time'])
        act, tx, err = run_action(ex, db, ACT + 'NewSeekSubscriptionToTime', [p], '(*' + ACT + 'SeekSubscriptionToTime).Execute')
        rp = action_results(ex, act)
        return err, {'NumAcked': ex.getf(rp, 'NumAcked'), 'NumDeAcked': ex.getf(rp, 'NumDeAcked')} if rp is not None else {}

    def to_ops(self, a):
        return [{'op': 'seek_time', 'name': a['name'] or None, 'id': replay.uuid_str(a['id']) if a['id'] is not None else None, 'time': str(a['time'])}]


class SeekSnapshot(Transition):
    name = 'seek-to-snapshot'
    kind = 'seek'
    sizes = {'Topic': 1, 'Subscription': 2, 'Message': 2, 'Delivery': 3, 'Snapshot': 1}

    def prepare_db(self, ex, db):
        # snapshot rows carry an acked-id list of 0..2 arbitrary message ids
        for r in db.t['Snapshot']:
            n = ex.choose(3)
            r.v['acked_message_ids'] = tuple(sym_uuid_list(ex, 'snapack%d_' % r.slot, n))

    def make_args(self, ex, db):
        a = name_or_id_args(ex, db, 'sub')
        b = name_or_id_args(ex, db, 'snap')
        a.update(snap_name=b['name'], snap_id=b['id'])
        return a

    def call(self, ex, db, a):
        p = params(ex, 'SeekSubscriptionToSnapshotParams', SubscriptionName=a['name'], SubscriptionID=idptr(ex, a['id']),
                   SnapshotName=a['snap_name'], SnapshotID=idptr(ex, a['snap_id']))
        act, tx, err = run_action(ex, db, ACT + 'NewSeekSubscriptionToSnapshot', [p], '(*' + ACT + 'SeekSubscriptionToSnapshot).Execute')
        rp = action_results(ex, act)
        return err, {'NumAcked': ex.getf(rp, 'NumAcked'), 'NumDeAcked': ex.getf(rp, 'NumDeAcked')} if rp is not None else {}

    def to_ops(self, a):
        u = lambda x: replay.uuid_str(x) if x is not None else None
        return [{'op': 'seek_snapshot', 'subscription_name': a['name'] or None, 'subscription_id': u(a['id']),
                 'snapshot_name': a['snap_name'] or None, 'snapshot_id': u(a['snap_id'])}]


class CreateSnapshot(Transition):
    name = 'create-snapshot'
    kind = 'create-snapshot'
    sizes = {'Topic': 1, 'Subscription': 2, 'Message': 2, 'Delivery': 3, 'Snapshot': 1}

    def make_args(self, ex, db):
        n, s = z3.String('snapname'), z3.String('snapsub')
        ex.assume(z3.And(n != '', s != ''))
        return {'snap_name': n, 'sub_name': s}

    def call(self, ex, db, a):
        p = params(ex, 'CreateSnapshotParams', SubscriptionName=a['sub_name'], Name=a['snap_name'], Labels=None)
        act, tx, err = run_action(ex, db, ACT + 'NewCreateSnapshot', [p], '(*' + ACT + 'CreateSnapshot).Execute')
        rp = action_results(ex, act)
        return err, {'SnapshotID': ex.getf(rp, 'SnapshotID')} if rp is not None else {}

    def to_ops(self, a):
        return [{'op': 'create_snapshot', 'subscription_name': a['sub_name'], 'name': a['snap_name']}]

    def res_from_replay(self, results, args_c, out):
        r = results[-1].get('result') or {}
        return {'SnapshotID': replay.uuid_int(r['SnapshotID'])} if 'SnapshotID' in r else {}


class DeadLetterSweep(DLBound, Transition):
    name = 'dead-letter-sweep'
    kind = 'sweep'
    sizes = {'Topic': 2, 'Subscription': 2, 'Message': 1, 'Delivery': 1}
    sizes_thorough = {'Topic': 2, 'Subscription': 2, 'Message': 1, 'Delivery': 2}

    def make_args(self, ex, db):
        m = z3.Int('max_deliveries')
        ex.assume(z3.And(m >= 1, m < 2**31))
        return {'max': m}

    def call(self, ex, db, a):
        p = params(ex, 'DeadLetterDeliveriesParams', MaxDeliveries=a['max'])
        act, tx, err = run_action(ex, db, ACT + 'NewDeadLetterDeliveries', [p], '(*' + ACT + 'DeadLetterDeliveries).Execute')
        rp = action_results(ex, act)
        return err, {'NumDeadLettered': ex.getf(rp, 'NumDeadLettered')} if rp is not None else {}

    def to_ops(self, a):
        return [{'op': 'deadletter_sweep', 'max': a['max']}]


class Prune(Transition):
    kind = 'prune'
    exists = None      # every row slot may or may not exist
    sizes = {'Topic': 2, 'Subscription': 2, 'Message': 2, 'Delivery': 3}

    def __init__(self, job, ctor, typ):
        self.job, self.ctor, self.typ = job, ctor, typ
        self.name = job.replace('_', '-')

    def make_args(self, ex, db):
        age, mx = z3.Int('min_age'), z3.Int('max_delete')
        ex.assume(z3.And(age >= 0, age < 2**55, mx >= 1, mx < 2**31))
        return {'min_age': age, 'max_delete': mx}

    def call(self, ex, db, a):
        p = params(ex, 'PruneCommonParams', MinAge=a['min_age'], MaxDelete=a['max_delete'])
        act, tx, err = run_action(ex, db, ACT + self.ctor, [p], '(*' + ACT + self.typ + ').Execute')
        rp = action_results(ex, act)
        return err, {'NumDeleted': ex.getf(rp, 'NumDeleted')} if rp is not None else {}

    def to_ops(self, a):
        return [{'op': self.job, 'min_age': str(a['min_age']), 'max_delete': a['max_delete']}]


PRUNES = [
    Prune('prune_completed_deliveries', 'NewPruneCompletedDeliveries', 'PruneCompletedDeliveries'),
    Prune('prune_expired_deliveries', 'NewPruneExpiredDeliveries', 'PruneExpiredDeliveries'),
    Prune('prune_completed_messages', 'NewPruneCompletedMessages', 'PruneCompletedMessages'),
    Prune('prune_deleted_subscription_deliveries', 'NewPruneDeletedSubscriptionDeliveries', 'PruneDeletedSubscriptionDeliveries'),
    Prune('prune_deleted_subscriptions', 'NewPruneDeletedSubscriptions', 'PruneDeletedSubscriptions'),
    Prune('prune_deleted_topics', 'NewPruneDeletedTopics', 'PruneDeletedTopics'),
    Prune('delete_expired_subscriptions', 'NewDeleteExpiredSubscriptions', 'DeleteExpiredSubscriptions'),
]
PRUNES[-1].kind = 'expire-subs'


class DeleteSub(Transition):
    name = 'delete-subscription'
    kind = 'delete-sub'

    def make_args(self, ex, db):
        return {'name': z3.String('delname')}

    def call(self, ex, db, a):
        act, tx, err = run_action(ex, db, ACT + 'NewDeleteSubscription', [a['name']], '(*' + ACT + 'DeleteSubscription).Execute')
        return err, {}

    def to_ops(self, a):
        return [{'op': 'delete_subscription', 'name': a['name']}]


class DeleteTopic(Transition):
    name = 'delete-topic'
    kind = 'delete-topic'
    sizes = {'Topic': 2, 'Subscription': 2, 'Message': 2, 'Delivery': 2, 'Snapshot': 1}

    def make_args(self, ex, db):
        return {'name': z3.String('delname')}

    def call(self, ex, db, a):
        act, tx, err = run_action(ex, db, ACT + 'NewDeleteTopic', [a['name']], '(*' + ACT + 'DeleteTopic).Execute')
        return err, {}

    def to_ops(self, a):
        return [{'op': 'delete_topic', 'name': a['name']}]


class CreateTopic(Transition):
    name = 'create-topic'
    kind = 'create-topic'
    sizes = {'Topic': 2, 'Subscription': 1, 'Message': 1, 'Delivery': 1}

    def make_args(self, ex, db):
        n = z3.String('newname')
        ex.assume(n != '')     # documented precondition of NewCreateTopic (it panics otherwise; handlers are checked in C16)
        return {'name': n, 'labels': reldb.sym_value(ex, 'map', 'newlabels')}

    def call(self, ex, db, a):
        p = params(ex, 'CreateTopicParams', Name=a['name'], Labels=a['labels'])
        act, tx, err = run_action(ex, db, ACT + 'NewCreateTopic', [p], '(*' + ACT + 'CreateTopic).Execute')
        rp = action_results(ex, act)
        return err, {'ID': ex.getf(rp, 'ID')} if rp is not None else {}

    def to_ops(self, a):
        return [{'op': 'create_topic', 'name': a['name'], 'labels': a['labels']}]

    def res_from_replay(self, results, args_c, out):
        r = results[-1].get('result') or {}
        return {'ID': replay.uuid_int(r['ID'])} if 'ID' in r else {}


class CreateSub(Transition):
    name = 'create-subscription'
    kind = 'create-sub'
    sizes = {'Topic': 2, 'Subscription': 2, 'Message': 1, 'Delivery': 1}

    def make_args(self, ex, db):
        a = {'name': z3.String('newname'), 'topic_name': z3.String('newtopic'), 'labels': reldb.sym_value(ex, 'map', 'newlabels'),
             'push_endpoint': z3.String('newpush'), 'filter': z3.String('newfilter'), 'dead_letter_topic': z3.String('newdlt'),
             'ordered': z3.Bool('newordered')}
        for k in ('ttl', 'message_ttl', 'min_backoff', 'max_backoff', 'max_attempts'):
            a[k] = z3.Int('new' + k)
        # documented preconditions of NewCreateSubscription (it panics otherwise; handlers are checked against them in C16)
        ex.assume(z3.And(a['ttl'] > 0, a['ttl'] < 2**55, a['message_ttl'] > 0, a['message_ttl'] < 2**55,
                         a['max_attempts'] >= 0, a['max_attempts'] < 2**31, (a['max_attempts'] != 0) == (a['dead_letter_topic'] != ''),
                         a['min_backoff'] > -2**55, a['min_backoff'] < 2**55, a['max_backoff'] > -2**55, a['max_backoff'] < 2**55))
        # replayable counterexamples: the two durations at least a minute long and a minute apart (a mix-up of the two is then visible on the real clock)
        ex.env.setdefault('small_model', []).extend([a['ttl'] >= 60 * 10**9, a['message_ttl'] >= 60 * 10**9,
                                                      z3.Or(a['ttl'] - a['message_ttl'] >= 60 * 10**9, a['message_ttl'] - a['ttl'] >= 60 * 10**9)])
        return a

    def call(self, ex, db, a):
        p = params(ex, 'CreateSubscriptionParams', TopicName=a['topic_name'], Name=a['name'], TTL=a['ttl'], MessageTTL=a['message_ttl'],
                   OrderedDelivery=a['ordered'], Labels=a['labels'], PushEndpoint=a['push_endpoint'], MinBackoff=a['min_backoff'],
                   MaxBackoff=a['max_backoff'], Filter=a['filter'], MaxDeliveryAttempts=a['max_attempts'], DeadLetterTopic=a['dead_letter_topic'])
        act, tx, err = run_action(ex, db, ACT + 'NewCreateSubscription', [p], '(*' + ACT + 'CreateSubscription).Execute')
        rp = action_results(ex, act)
        return err, {'ID': ex.getf(rp, 'ID')} if rp is not None else {}

    def to_ops(self, a):
        return [{'op': 'create_subscription', 'topic_name': a['topic_name'], 'name': a['name'], 'ttl': str(a['ttl']),
                 'message_ttl': str(a['message_ttl']), 'ordered_delivery': a['ordered'], 'labels': a['labels'],
                 'push_endpoint': a['push_endpoint'], 'min_backoff': str(a['min_backoff']), 'max_backoff': str(a['max_backoff']),
                 'filter': a['filter'], 'max_delivery_attempts': a['max_attempts'], 'dead_letter_topic': a['dead_letter_topic']}]

    def res_from_replay(self, results, args_c, out):
        r = results[-1].get('result') or {}
        return {'ID': replay.uuid_int(r['ID'])} if 'ID' in r else {}


def all_transitions():
    return [Ack(), Nack(), Delay(), Publish(), Pull(), SeekTime(), SeekSnapshot(), CreateSnapshot(), DeadLetterSweep()] + PRUNES + \
        [DeleteSub(), DeleteTopic(), CreateTopic(), CreateSub()]
