#!/usr/bin/env python3-vt
"""replay a stored scenario against the real build (the current /repo tree) and print what every operation returned and the delivery table.
usage: python3-vt findings/replay.py findings/<scenario>.json"""
import sys, os, json
sys.path.insert(0, os.path.dirname(os.path.dirname(os.path.abspath(__file__))))
from gosym import replay

scn = json.load(open(sys.argv[1]))
scn.pop('_meta', None)
out = replay.run_scenarios([scn])[0]
if 'error' in out:
    print(out['error'][-2000:])
    sys.exit(2)
B = int(scn['base_now'])
rel = lambda x: None if x is None else round((int(x) - B) / 1e9, 6)


def table(rows):
    for x in rows or []:
        print('     delivery %s message %s published %s attempt_at %s expires %s completed %s not_before %s' % (
            x['id'][-4:], x['message_id'][-4:], rel(x['published_at']), rel(x['attempt_at']), rel(x['expires_at']), rel(x['completed_at']), (x.get('not_before_id') or '-')[-4:]))


for r in out['results']:
    if r['op'] == 'dump':
        print('  state:')
        table(r['state'].get('Delivery'))
    else:
        res = r.get('result') or {}
        ds = [d['id'][-4:] + ':' + str(d.get('payload')) for d in res.get('deliveries', [])] if isinstance(res, dict) else ''
        print('%-12s t=%-12s %s %s' % (r['op'], rel(r['t0']), ds if ds else json.dumps(res)[:120], r.get('err', '')))
print('  final state:')
table(out['post'].get('Delivery'))
