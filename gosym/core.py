import os
"""gosym core: a symbolic interpreter for the go/ssa JSON exported by ssaexport.

Shapes are concrete, scalars are symbolic (z3).  Paths are explored by
decision-prefix re-execution (see Explorer)."""
import json, os, re, sys, time, itertools
import z3

I = z3.IntVal
ZERO_TIME_NS = -62135596800 * 10**9  # Go's zero time.Time in unix nanoseconds

UUID_T = 'github.com/google/uuid.UUID'
TIME_T = 'time.Time'
ATOMIC_INT_TYPES = {UUID_T, TIME_T}


class Unsupported(Exception):
    pass


class Infeasible(Exception):
    pass


class UnwindExceeded(Exception):
    pass


class PathAbort(Exception):
    """harness-requested end of the path (e.g. assumption made the path uninteresting)"""


class GoPanic(Exception):
    def __init__(self, value, where=''):
        Exception.__init__(self, 'go panic: %r at %s' % (value, where))
        self.value = value
        self.where = where


class GoExit(Exception):
    pass


# ---------------------------------------------------------------- values
class Cell:
    __slots__ = ('v', 'tag')

    def __init__(self, v, tag=None):
        self.v = v
        self.tag = tag


class Struct:
    __slots__ = ('t', 'f')

    def __init__(self, t, f):
        self.t = t
        self.f = f

    def __repr__(self):
        return 'Struct<%s>%r' % (self.t.split('/')[-1], self.f)


class Array:
    __slots__ = ('f',)

    def __init__(self, f):
        self.f = f

    def __repr__(self):
        return 'Array%r' % (self.f,)


class Ptr:
    """pointer to slot `key` of container `base` (Cell: key 'v'; Struct/Array: index).
    nilc: optional z3 Bool, true iff the pointer is nil (symbolic nil-ness)."""
    __slots__ = ('base', 'key', 'nilc')

    def __init__(self, base, key, nilc=None):
        self.base = base
        self.key = key
        self.nilc = nilc

    def get(self):
        b = self.base
        if isinstance(b, Cell):
            return b.v
        return b.f[self.key]

    def set(self, v):
        b = self.base
        if isinstance(b, Cell):
            b.v = v
        else:
            b.f[self.key] = v

    def same(self, o):
        return isinstance(o, Ptr) and self.base is o.base and self.key == o.key

    def __repr__(self):
        return 'Ptr(%s,%r%s)' % (type(self.base).__name__, self.key, ',nilc' if self.nilc is not None else '')


class Slice:
    __slots__ = ('arr', 'off', 'len', 'cap')

    def __init__(self, arr, off, ln, cap):
        self.arr = arr
        self.off = off
        self.len = ln
        self.cap = cap

    def items(self):
        return self.arr.f[self.off:self.off + self.len] if self.arr is not None else []

    def __repr__(self):
        return 'Slice%r' % (self.items(),)


class OpaqueBytes:
    """a []byte / string-like blob with identity and a (possibly symbolic) length"""
    __slots__ = ('ident', 'len')

    def __init__(self, ident, ln):
        self.ident = ident
        self.len = ln

    def __repr__(self):
        return 'OpaqueBytes(%s)' % (self.ident,)


class MapObj:
    __slots__ = ('ents',)

    def __init__(self):
        self.ents = []  # list of [key, value]


class SymMap:
    """map[string]string with symbolic content: has: Array(String,Bool), val: Array(String,String)"""
    __slots__ = ('has', 'val', 'nil', 'size')

    def __init__(self, has, val, nil=False):
        self.has = has
        self.val = val
        self.nil = nil
        self.size = None


class UUIDStr:
    """the canonical string form of a uuid (kept symbolic as the uuid's integer value: no string theory needed)"""
    __slots__ = ('v',)

    def __init__(self, v):
        self.v = v

    def __repr__(self):
        return 'UUIDStr(%s)' % (self.v,)


class Iface:
    __slots__ = ('t', 'v')

    def __init__(self, t, v):
        self.t = t
        self.v = v

    def __repr__(self):
        return 'Iface(%s,%r)' % (self.t, self.v)


class Closure:
    __slots__ = ('fn', 'b')

    def __init__(self, fn, b=()):
        self.fn = fn
        self.b = list(b)

    def __repr__(self):
        return 'Closure(%s)' % self.fn


class PyFunc:
    """a Go func value implemented by the harness / environment model"""
    __slots__ = ('f', 'name')

    def __init__(self, f, name='pyfunc'):
        self.f = f
        self.name = name


class Chan:
    def __init__(self, cap=0, name=None):
        self.cap = cap
        self.q = []
        self.closed = False
        self.name = name


class FloatV:
    """float64 modelled as a z3 Real (or python float) -- see fpmodel"""
    __slots__ = ('r',)

    def __init__(self, r):
        self.r = r


class Opaque:
    """opaque environment object; `kind` names it, attrs free-form"""

    def __init__(self, kind, **kw):
        self.kind = kind
        self.__dict__.update(kw)

    def __repr__(self):
        return 'Opaque(%s)' % self.kind


class GlobalOpaque(Opaque):
    """package-level singleton whose initialiser is not run (metrics, loggers, sentinel errors)"""

    def __init__(self, name):
        Opaque.__init__(self, 'global', name=name)

    def go_invoke(self, ex, method, args):
        if method == 'Error':
            return 'error:' + self.name
        if method in ('Unwrap',):
            return None
        return self   # metric / logger call chains have no modelled effect

    def go_implements(self, ex, at, need):
        return False

    def __repr__(self):
        return 'Global(%s)' % self.name


class MapIter:
    def __init__(self, items):
        self.items = items
        self.i = 0


def is_sym(v):
    return isinstance(v, z3.ExprRef)


def zbool(v):
    return v if is_sym(v) else z3.BoolVal(bool(v))


def zint(v):
    return v if is_sym(v) else z3.IntVal(v)


def zstr(v):
    return v if is_sym(v) else z3.StringVal(v)


def simp(e):
    if not is_sym(e):
        return e
    e = z3.simplify(e)
    if z3.is_true(e):
        return True
    if z3.is_false(e):
        return False
    if z3.is_int_value(e):
        return e.as_long()
    if z3.is_string_value(e):
        return e.as_string()
    return e


def And(*xs):
    ys = []
    for x in xs:
        if x is True:
            continue
        if x is False:
            return False
        ys.append(x)
    if not ys:
        return True
    if len(ys) == 1:
        return ys[0]
    return z3.And(*ys)


def Or(*xs):
    ys = []
    for x in xs:
        if x is False:
            continue
        if x is True:
            return True
        ys.append(x)
    if not ys:
        return False
    if len(ys) == 1:
        return ys[0]
    return z3.Or(*ys)


def Not(x):
    if x is True:
        return False
    if x is False:
        return True
    return z3.Not(x)


def Implies(a, b):
    return Or(Not(a), b)


def Ite(c, a, b):
    """generic if-then-else over gosym values"""
    if c is True:
        return a
    if c is False:
        return b
    if a is b:
        return a
    if isinstance(a, tuple) and isinstance(b, tuple) and len(a) == len(b):
        return tuple(Ite(c, x, y) for x, y in zip(a, b))
    if isinstance(a, SymMap) and isinstance(b, SymMap):
        return SymMap(z3.If(c, a.has, b.has), z3.If(c, a.val, b.val), Ite(c, a.nil, b.nil))
    if isinstance(a, OpaqueBytes) and isinstance(b, OpaqueBytes):
        return OpaqueBytes(Ite(c, a.ident, b.ident), Ite(c, a.len, b.len))
    if isinstance(a, bool) or isinstance(b, bool) or (is_sym(a) and z3.is_bool(a)):
        return z3.If(c, zbool(a), zbool(b))
    if isinstance(a, str) or isinstance(b, str) or (is_sym(a) and a.sort() == z3.StringSort()):
        return z3.If(c, zstr(a), zstr(b))
    if isinstance(a, int) or isinstance(b, int) or is_sym(a):
        if not is_sym(a) and not is_sym(b) and a == b:
            return a
        return z3.If(c, zint(a) if not is_sym(a) or z3.is_int(a) else a, zint(b) if not is_sym(b) or z3.is_int(b) else b)
    if a is b:
        return a
    raise Unsupported('Ite over %r / %r' % (type(a), type(b)))


INT_RANGES = {
    'int': (-2**63, 2**63 - 1), 'int64': (-2**63, 2**63 - 1), 'int32': (-2**31, 2**31 - 1),
    'int16': (-2**15, 2**15 - 1), 'int8': (-2**7, 2**7 - 1),
    'uint': (0, 2**64 - 1), 'uint64': (0, 2**64 - 1), 'uint32': (0, 2**32 - 1), 'uint16': (0, 2**16 - 1),
    'uint8': (0, 255), 'byte': (0, 255), 'uintptr': (0, 2**64 - 1), 'rune': (-2**31, 2**31 - 1),
}


def wrap_const(v, lo, hi):
    m = hi - lo + 1
    return (v - lo) % m + lo


def wrap_sym(e, lo, hi, narrow):
    """e is a z3 Int possibly outside [lo,hi]. narrow=True when |overflow| < one modulus (add/sub)"""
    m = hi - lo + 1
    if narrow:
        return z3.If(e > hi, e - m, z3.If(e < lo, e + m, e))
    return (e - lo) % m + lo


# ---------------------------------------------------------------- program
class Program:
    def __init__(self, path):
        d = json.load(open(path))
        self.funcs = d['funcs']
        self.types = d['types']
        self.msets = d['msets']
        self.consts = d['consts']
        self.globals = d['globals']
        self._under = {}
        self._kind = {}
        for f in self.funcs.values():
            if 'blocks' in f:
                f['_b'] = {b['i']: b for b in f['blocks']}

    def under(self, t):
        """underlying type descriptor (resolving named)"""
        r = self._under.get(t)
        if r is None:
            d = self.types.get(t)
            if d is None:
                raise Unsupported('unknown type ' + t)
            while d['k'] == 'named':
                d = self.types[d['under']]
            r = self._under[t] = d
        return r

    def basic(self, t):
        d = self.under(t)
        if d['k'] == 'basic':
            return d['name'].replace('untyped ', '')
        return None

    def int_range(self, t):
        b = self.basic(t)
        return INT_RANGES.get(b)


class Frame:
    __slots__ = ('fn', 'regs', 'params', 'fv', 'defers', 'panicking', 'in_defers', 'recovered', 'visits', 'results')

    def __init__(self, fn, params, fv):
        self.fn = fn
        self.regs = {}
        self.params = params
        self.fv = fv
        self.defers = []
        self.panicking = None
        self.in_defers = False
        self.recovered = False
        self.visits = {}


class Exec:
    """one path of symbolic execution"""

    def __init__(self, prog, explorer, prefix):
        self.prog = prog
        self.xp = explorer
        self.prefix = prefix
        self.dec = []           # decisions taken on this path
        self.pc = []            # path condition (list of z3 Bool)
        self.solver = z3.Solver()
        self.solver.set('timeout', explorer.query_timeout_ms)
        self.nsym = 0
        self.frames = []
        self.globals = {}
        self.intrinsics = explorer.intrinsics
        self.patterns = explorer.patterns
        self.unwind = explorer.unwind
        self.trace_calls = explorer.trace_calls
        self.events = []        # environment event log (harness-defined)
        self.env = {}           # environment model state (clock, db, ...)
        self.goroutines = []
        self.executed = explorer.executed
        self.known_uuids = []
        self.steps = 0
        self.max_steps = explorer.max_steps
        self.depth = 0
        self.alt_sink = None
        self.no_merge = False
        self.cur = None

    # ---- symbols
    def fresh(self, name, sort='int'):
        self.nsym += 1
        n = '%s!%d' % (name, self.nsym)
        if sort == 'int':
            return z3.Int(n)
        if sort == 'bool':
            return z3.Bool(n)
        if sort == 'str':
            return z3.String(n)
        if sort == 'real':
            return z3.Real(n)
        return z3.Const(n, sort)

    def fresh_int(self, name, t='int64'):
        v = self.fresh(name)
        lo, hi = INT_RANGES[t]
        self.assume(z3.And(v >= lo, v <= hi))
        return v

    def fresh_uuid(self, name, distinct=True):
        v = self.fresh(name)
        self.assume(z3.And(v >= 1, v < 2**128))
        if distinct:
            for o in self.known_uuids:
                self.assume(v != o)
        self.known_uuids.append(v)
        return v

    # ---- path condition
    def assume(self, c):
        c = simp(c) if is_sym(c) else c
        if c is True:
            return
        if c is False:
            raise Infeasible()
        self.pc.append(c)
        self.solver.add(c)

    def check_sat(self, *extra):
        self.xp.nqueries += 1
        t0 = time.time()
        r = self.solver.check(*extra)
        self.xp.solver_time += time.time() - t0
        if r == z3.unknown:
            self.xp.unknowns += 1
        return r

    def branch(self, cond):
        """decide a (possibly symbolic) condition, forking when both sides are feasible"""
        if isinstance(cond, bool):
            return cond
        cond = simp(cond)
        if isinstance(cond, bool):
            return cond
        k = len(self.dec)
        if k < len(self.prefix):
            d = self.prefix[k]
            self.dec.append(d)
            c = cond if d else z3.Not(cond)
            self.pc.append(c)
            self.solver.add(c)
            return d
        rt = self.check_sat(cond)
        # the path condition itself is satisfiable, so if cond is impossible its negation is possible
        rf = z3.sat if rt == z3.unsat else self.check_sat(z3.Not(cond))
        if rt == z3.unknown or rf == z3.unknown:
            # keep both (sound for bug finding: infeasible paths are re-checked at the assertion)
            rt = z3.sat if rt != z3.unsat else rt
            rf = z3.sat if rf != z3.unsat else rf
        if rt == z3.sat and rf == z3.sat:
            if self.alt_sink is None and self.xp.fork_ctx is not None:
                d = not self.xp.fork_ctx.spawn()
            else:
                (self.alt_sink if self.alt_sink is not None else self.xp.work).append(self.dec + [False])
                d = True
            if self.xp.profile_forks:
                site = '%s:%s' % (self.frames[-1].fn['name'].split('/')[-1] if self.frames else 'harness', (self.cur or {}).get('ln') if self.frames else '')
                if os.environ.get('VERIF_PROFILE') == '2':
                    import traceback as _tb
                    site += ' <- ' + '/'.join(f.name for f in _tb.extract_stack(limit=9)[:-1] if f.name not in ('run_fn', 'call_fn', 'branch'))
                self.xp.fork_sites[site] = self.xp.fork_sites.get(site, 0) + 1
        elif rt == z3.sat:
            d = True
        elif rf == z3.sat:
            d = False
        else:
            raise Infeasible()
        self.dec.append(d)
        c = cond if d else z3.Not(cond)
        self.pc.append(c)
        self.solver.add(c)
        return d

    def choose(self, n, label=''):
        """nondeterministic n-way choice (no condition): explores all n"""
        if n <= 1:
            return 0
        k = len(self.dec)
        if k < len(self.prefix):
            d = self.prefix[k]
            self.dec.append(d)
            return d
        if self.alt_sink is None and self.xp.fork_ctx is not None:
            for alt in range(1, n):
                if self.xp.fork_ctx.spawn():
                    self.dec.append(alt)
                    return alt
            self.dec.append(0)
            return 0
        for alt in range(1, n):
            (self.alt_sink if self.alt_sink is not None else self.xp.work).append(self.dec + [alt])
        self.dec.append(0)
        return 0

    # ---- types
    def zero(self, t):
        if t in ATOMIC_INT_TYPES:
            return ZERO_TIME_NS if t == TIME_T else 0
        d = self.prog.types.get(t)
        if d is None:
            raise Unsupported('unknown type ' + t)
        k = d['k']
        if k == 'named':
            z = self.zero(d['under'])
            if isinstance(z, Struct):
                z.t = t
            return z
        if k == 'basic':
            n = d['name']
            if n in ('bool', 'untyped bool'):
                return False
            if n in ('string', 'untyped string'):
                return ''
            if n in ('float64', 'float32', 'untyped float'):
                return FloatV(0.0)
            if n in ('unsafe.Pointer', 'Pointer'):
                return None
            return 0
        if k == 'struct':
            return Struct(t, [self.zero(f['t']) for f in d['fields']])
        if k == 'array':
            return Array([self.zero(d['elem']) for _ in range(d['len'])])
        if k in ('ptr', 'slice', 'map', 'chan', 'sig', 'iface', 'other'):
            if k == 'slice':
                return Slice(None, 0, 0, 0)
            return None
        if k == 'tuple':
            return tuple(self.zero(e) for e in d['elems'])
        raise Unsupported('zero of ' + t)

    def copyval(self, v):
        if isinstance(v, Struct):
            return Struct(v.t, [self.copyval(x) for x in v.f])
        if isinstance(v, Array):
            return Array([self.copyval(x) for x in v.f])
        return v

    def struct_field_index(self, t, name):
        d = self.prog.under(t)
        for i, f in enumerate(d['fields']):
            if f['name'] == name:
                return i
        raise KeyError(name)

    def new_struct(self, t, **fields):
        s = self.zero(t)
        for k, v in fields.items():
            s.f[self.struct_field_index(t, k)] = v
        return s

    def new_ptr(self, v):
        return Ptr(Cell(v), 'v')

    def getf(self, s, name):
        """field of struct (value or pointer) by name"""
        if isinstance(s, Ptr):
            s = s.get()
        return s.f[self.struct_field_index(s.t, name)]

    def setf(self, s, name, v):
        if isinstance(s, Ptr):
            s = s.get()
        s.f[self.struct_field_index(s.t, name)] = v

    def mkslice(self, items):
        items = list(items)
        return Slice(Array(items), 0, len(items), len(items))

    # ---- operand evaluation
    def val(self, fr, o):
        if isinstance(o, str):
            k = o[0]
            if k == 'r':
                try:
                    return fr.regs[o[2:]]
                except KeyError:
                    raise Unsupported('register %s undefined in %s' % (o, fr.fn['name']))
            if k == 'p':
                return fr.params[int(o[2:])]
            if k == 'f':
                return fr.fv[int(o[2:])]
        if o is None:
            return None
        if 'c' in o:
            return self.const(o)
        if 'g' in o:
            return self.global_ptr(o['g'], o['t'])
        if 'fn' in o:
            return Closure(o['fn'])
        if 'b' in o:
            return ('builtin', o['b'])
        raise Unsupported('operand %r' % (o,))

    def const(self, o):
        t = o['t']
        c = o['c']
        if c is None:
            return self.zero(t)
        if o.get('i'):
            b = self.prog.basic(t)
            if b in ('float64', 'float32', 'float'):
                return FloatV(float(int(c)))
            return int(c)
        if o.get('s'):
            return c
        if o.get('f'):
            b = self.prog.basic(t)
            if b in ('float64', 'float32', 'float'):
                return FloatV(o['x'])   # exact string; fpmodel converts
            return int(float(c))
        if isinstance(c, bool):
            return c
        raise Unsupported('const %r' % (o,))

    def global_ptr(self, name, pt):
        g = self.globals.get(name)
        if g is None:
            h = self.xp.global_init.get(name)
            et = self.prog.globals.get(name)
            if h is not None:
                v = h(self, name, et)
            else:
                if et is None and pt is not None and pt in self.prog.types:
                    et = self.prog.types[pt]['elem']
                if et is None:
                    raise Unsupported('global ' + name)
                v = self.default_global(name, et)
            g = self.globals[name] = Cell(v, tag=name)
        return Ptr(g, 'v')

    def default_global(self, name, et):
        d = self.prog.under(et)
        if d['k'] == 'iface' or d['k'] == 'ptr':
            # opaque singleton (errors, metrics, loggers, parsers ...)
            o = GlobalOpaque(name)
            if d['k'] == 'iface':
                return Iface('global:' + name, o)
            return o
        if d['k'] in ('basic', 'struct', 'array'):
            return self.zero(et)
        if d['k'] == 'map':
            return MapObj()    # package-level maps of this code base are initialised to empty literals
        return GlobalOpaque(name)

    # ---- calls
    def find_intrinsic(self, name):
        h = self.intrinsics.get(name)
        if h is not None:
            return h
        c = self.xp.pat_cache.get(name, 0)
        if c != 0:
            return c
        r = None
        for rx, hh in self.patterns:
            if rx.match(name):
                r = hh
                break
        self.xp.pat_cache[name] = r
        return r

    def call_named(self, name, args, site=None):
        h = self.find_intrinsic(name)
        if h is not None:
            return h(self, args, name)
        if name in self.xp.merge_funcs and not self.no_merge:
            return self.summarize(lambda: self.call_plain(name, args), name)
        return self.call_plain(name, args)

    def summarize(self, thunk, what=''):
        """state merging: run thunk() (which must be free of heap/environment side effects) on all
        of its feasible paths from the current state and return the ite-merged result, without forking
        the caller.  Falls back to ordinary forking if the results cannot be merged."""
        saved = (self.prefix, self.dec, len(self.pc), self.alt_sink, len(self.frames))
        local = [[]]
        outs = []
        self.alt_sink = local
        self.xp.nsummaries += 1
        ok = True
        try:
            while local:
                suffix = local.pop()
                self.prefix, self.dec = suffix, []
                self.solver.push()
                try:
                    try:
                        v = thunk()
                        outs.append((And(*self.pc[saved[2]:]), 'ret', v))
                    except GoPanic as p:
                        outs.append((And(*self.pc[saved[2]:]), 'panic', p))
                    except Infeasible:
                        pass
                finally:
                    self.solver.pop()
                    del self.pc[saved[2]:]
                    del self.frames[saved[4]:]
                if len(outs) > 256:
                    raise Unsupported('summary of %s has too many paths' % what)
        finally:
            self.prefix, self.dec, self.alt_sink = saved[0], saved[1], saved[3]
        if not outs:
            raise Infeasible()
        rets = [(c, v) for c, k, v in outs if k == 'ret']
        panics = [(c, v) for c, k, v in outs if k == 'panic']
        if panics:
            pc_ = Or(*[c for c, _ in panics])
            if not rets or self.branch(pc_):
                if len(panics) > 1:
                    for c, p in panics[:-1]:
                        if self.branch(c):
                            raise p
                raise panics[-1][1]
        try:
            v = rets[-1][1]
            for c, val in reversed(rets[:-1]):
                v = Ite(c, val, v)
            return v
        except Unsupported:
            # cannot merge: fork over the outcomes instead
            for c, val in rets[:-1]:
                if self.branch(c):
                    return val
            return rets[-1][1]

    def call_plain(self, name, args):
        fn = self.prog.funcs.get(name)
        if fn is None or 'blocks' not in fn:
            raise Unsupported('call to un-exported function %s' % name)
        return self.run(fn, args, [])

    def call_value(self, fv, args):
        if isinstance(fv, Closure):
            if fv.b:
                h = self.find_intrinsic(fv.fn)
                if h is not None:
                    return h(self, args, fv.fn)
                fn = self.prog.funcs.get(fv.fn)
                if fn is None or 'blocks' not in fn:
                    raise Unsupported('call to un-exported closure %s' % fv.fn)
                return self.run(fn, args, fv.b)
            return self.call_named(fv.fn, args)
        if isinstance(fv, PyFunc):
            return fv.f(self, args)
        if isinstance(fv, tuple) and fv and fv[0] == 'bound':
            return self.call_named(fv[1], [fv[2]] + list(args))
        if fv is None:
            raise GoPanic('nil func call')
        raise Unsupported('call of %r' % (fv,))

    def invoke(self, recv, method, args, itype=None):
        if recv is None:
            raise GoPanic('nil interface method call .%s' % method)
        if isinstance(recv, Iface):
            t, v = recv.t, recv.v
            hook = getattr(v, 'go_invoke', None)
            if hook is not None:
                return hook(self, method, args)
            ms = self.prog.msets.get(t)
            if ms is None or method not in ms:
                h = self.find_intrinsic('invoke:%s.%s' % (t, method))
                if h is not None:
                    return h(self, [v] + list(args), method)
                raise Unsupported('no method %s on dynamic type %s' % (method, t))
            return self.call_named(ms[method], [v] + list(args))
        hook = getattr(recv, 'go_invoke', None)
        if hook is not None:
            return hook(self, method, args)
        raise Unsupported('invoke %s on %r' % (method, recv))

    def do_call(self, fr, c):
        args = [self.val(fr, a) for a in c['args']]
        if 'invoke' in c:
            return self.invoke(self.val(fr, c['v']), c['invoke'], args, c.get('it'))
        v = c['v']
        if isinstance(v, dict) and 'b' in v:
            return self.builtin(fr, v['b'], args, c)
        if 'static' in c:
            fv = self.val(fr, v)
            if isinstance(fv, Closure) and fv.b:
                return self.call_value(fv, args)
            return self.call_named(c['static'], args)
        return self.call_value(self.val(fr, v), args)

    def builtin(self, fr, name, args, c):
        if name == 'len':
            return self.length(args[0])
        if name == 'cap':
            a = args[0]
            if isinstance(a, Slice):
                return a.cap
            raise Unsupported('cap of %r' % (a,))
        if name == 'append':
            return self.append(args[0], args[1])
        if name == 'copy':
            dst, src = args
            if isinstance(src, (str,)):
                raise Unsupported('copy from string')
            n = min(dst.len, src.len)
            its = src.items()[:n]
            for i in range(n):
                dst.arr.f[dst.off + i] = self.copyval(its[i])
            return n
        if name == 'delete':
            m, k = args
            if isinstance(m, MapObj):
                for i, (kk, vv) in enumerate(list(m.ents)):
                    if self.branch(self.eq(kk, k)):
                        del m.ents[i]
                        break
                return None
            if m is None:
                return None
            raise Unsupported('delete on %r' % (m,))
        if name == 'recover':
            # called directly by a deferred function: the panicking frame is the caller of the caller
            for f in reversed(self.frames[:-1]):
                if f.in_defers:
                    if f.panicking is not None:
                        p = f.panicking
                        f.panicking = None
                        f.recovered = True
                        v = p.value
                        if isinstance(v, (Iface,)) or v is None:
                            return v if v is not None else Iface('string', 'nil panic')
                        return Iface('string', v) if isinstance(v, str) else Iface('panic', v)
                    return None
                break
            return None
        if name == 'close':
            ch = args[0]
            if isinstance(ch, Chan):
                if ch.closed:
                    raise GoPanic('close of closed channel')
                ch.closed = True
                self.events.append(('close', ch))
                return None
            if ch is None:
                raise GoPanic('close of nil channel')
            raise Unsupported('close %r' % (ch,))
        if name in ('print', 'println'):
            return None
        if name in ('min', 'max'):
            r = args[0]
            for a in args[1:]:
                c_ = self.binop('<', a, r, 'int', 'bool') if name == 'min' else self.binop('>', a, r, 'int', 'bool')
                r = Ite(c_, a, r) if is_sym(c_) else (a if c_ else r)
            return r
        if name == 'clear':
            m = args[0]
            if isinstance(m, MapObj):
                m.ents = []
                return None
        raise Unsupported('builtin ' + name)

    def length(self, a):
        if isinstance(a, Slice):
            return a.len
        if isinstance(a, UUIDStr):
            return 36
        h = getattr(a, 'go_len', None)
        if h is not None:
            return h(self)
        if isinstance(a, str):
            return len(a.encode('utf-8'))
        if isinstance(a, MapObj):
            return len(a.ents)
        if isinstance(a, OpaqueBytes):
            return a.len
        if a is None:
            return 0
        if isinstance(a, SymMap):
            if getattr(a, 'size', None) is None:
                a.size = self.fresh('maplen')
                self.assume(a.size >= 0)
                # the map is empty exactly when no key is present
                self.assume((a.size == 0) == (a.has == z3.K(z3.StringSort(), z3.BoolVal(False))))
                if a.nil is not False:
                    self.assume(Implies(a.nil, a.size == 0))
            return a.size
        if isinstance(a, Array):
            return len(a.f)
        if isinstance(a, Chan):
            return len(a.q)
        if is_sym(a) and a.sort() == z3.StringSort():
            return z3.Length(a)
        if isinstance(a, Ptr):
            return len(a.get().f)
        raise Unsupported('len of %r' % (a,))

    def append(self, s, t):
        if isinstance(t, str):
            raise Unsupported('append string to bytes')
        a = s.items() if isinstance(s, Slice) else []
        b = t.items() if isinstance(t, Slice) else []
        if isinstance(s, Slice) and s.arr is not None and s.len + len(b) <= s.cap:
            # in place (aliasing semantics)
            for i, x in enumerate(b):
                idx = s.off + s.len + i
                if idx < len(s.arr.f):
                    s.arr.f[idx] = self.copyval(x)
                else:
                    s.arr.f.append(self.copyval(x))
            return Slice(s.arr, s.off, s.len + len(b), s.cap)
        items = [self.copyval(x) for x in a] + [self.copyval(x) for x in b]
        return Slice(Array(items), 0, len(items), len(items))

    # ---- equality / comparison
    def eq(self, a, b):
        if a is None or b is None:
            o = b if a is None else a
            if o is None:
                return True
            if isinstance(o, Ptr):
                return o.nilc if o.nilc is not None else False
            if isinstance(o, Slice):
                return o.arr is None
            if isinstance(o, SymMap):
                return o.nil
            if isinstance(o, Opaque) and getattr(o, 'nilc', None) is not None:
                return o.nilc
            return False
        h = getattr(a, 'go_eq', None)
        if h is not None:
            return h(self, b)
        h = getattr(b, 'go_eq', None)
        if h is not None:
            return h(self, a)
        if isinstance(a, UUIDStr) or isinstance(b, UUIDStr):
            if isinstance(a, UUIDStr) and isinstance(b, UUIDStr):
                return self.eq(a.v, b.v)
            o = b if isinstance(a, UUIDStr) else a
            if isinstance(o, str):
                return False        # concrete strings of the harness vocabulary are never canonical uuid strings
            u = a if isinstance(a, UUIDStr) else b
            return simp(z3.Function('uuid_str', z3.IntSort(), z3.StringSort())(zint(u.v)) == zstr(o))
        if isinstance(a, Slice) and isinstance(b, Slice):
            if a.arr is None:
                return b.arr is None
            if b.arr is None:
                return False
            raise Unsupported('slice == slice')
        if isinstance(a, Ptr) or isinstance(b, Ptr):
            if isinstance(a, Ptr) and isinstance(b, Ptr):
                if a.same(b):
                    if a.nilc is None and b.nilc is None:
                        return True
                same = a.same(b)
                an = a.nilc if a.nilc is not None else False
                bn = b.nilc if b.nilc is not None else False
                return Or(And(an, bn), And(Not(an), Not(bn), same))
            return False
        if isinstance(a, Iface) and isinstance(b, Iface):
            if a.t != b.t:
                return False
            return self.eq(a.v, b.v)
        if isinstance(a, Iface) or isinstance(b, Iface):
            return False
        if isinstance(a, Struct) and isinstance(b, Struct):
            return And(*[self.eq(x, y) for x, y in zip(a.f, b.f)])
        if isinstance(a, Array) and isinstance(b, Array):
            return And(*[self.eq(x, y) for x, y in zip(a.f, b.f)])
        if isinstance(a, FloatV) or isinstance(b, FloatV):
            from . import fpmodel
            return fpmodel.cmp(self, '==', a, b)
        if isinstance(a, (Opaque, Chan, MapObj, Closure, Cell)) or isinstance(b, (Opaque, Chan, MapObj, Closure, Cell)):
            return a is b
        if is_sym(a) or is_sym(b):
            if isinstance(a, str) or isinstance(b, str):
                return simp(zstr(a) == zstr(b))
            if isinstance(a, bool) or isinstance(b, bool):
                return simp(zbool(a) == zbool(b))
            return simp(a == b)
        return a == b

    def binop(self, op, x, y, xt, rt):
        if op == '==':
            return self.eq(x, y)
        if op == '!=':
            return Not(self.eq(x, y))
        if isinstance(x, FloatV) or isinstance(y, FloatV):
            from . import fpmodel
            return fpmodel.binop(self, op, x, y)
        if isinstance(x, bool) or isinstance(y, bool) or (is_sym(x) and z3.is_bool(x)):
            if op == '&&' or op == '&':
                return And(x, y)
            if op == '||' or op == '|':
                return Or(x, y)
            raise Unsupported('bool binop ' + op)
        if op == '+' and getattr(x, 'go_concat', None) is not None:
            return x.go_concat(self, y)
        if op == '+' and getattr(y, 'go_rconcat', None) is not None:
            return y.go_rconcat(self, x)
        if isinstance(x, str) or isinstance(y, str) or (is_sym(x) and x.sort() == z3.StringSort()):
            sym = is_sym(x) or is_sym(y)
            if op == '+':
                return simp(z3.Concat(zstr(x), zstr(y))) if sym else x + y
            if not sym:
                return {'<': x < y, '<=': x <= y, '>': x > y, '>=': x >= y}[op]
            a, b = zstr(x), zstr(y)
            if op == '<':
                return a < b
            if op == '<=':
                return a <= b
            if op == '>':
                return b < a
            if op == '>=':
                return b <= a
            raise Unsupported('string binop ' + op)
        # integers
        sym = is_sym(x) or is_sym(y)
        if op in ('<', '<=', '>', '>='):
            if not sym:
                return {'<': x < y, '<=': x <= y, '>': x > y, '>=': x >= y}[op]
            return simp({'<': x < y, '<=': x <= y, '>': x > y, '>=': x >= y}[op])
        rng = self.prog.int_range(rt) if rt not in ATOMIC_INT_TYPES else None
        if rng is None:
            rng = (-2**63, 2**63 - 1)
        lo, hi = rng
        if not sym:
            if op == '+':
                r = x + y
            elif op == '-':
                r = x - y
            elif op == '*':
                r = x * y
            elif op == '/':
                if y == 0:
                    raise GoPanic('integer divide by zero')
                r = abs(x) // abs(y)
                if (x < 0) != (y < 0):
                    r = -r
            elif op == '%':
                if y == 0:
                    raise GoPanic('integer divide by zero')
                r = abs(x) % abs(y)
                if x < 0:
                    r = -r
            elif op == '&':
                r = x & y
            elif op == '|':
                r = x | y
            elif op == '^':
                r = x ^ y
            elif op == '<<':
                r = x << y if y < 200 else 0
            elif op == '>>':
                r = x >> y
            elif op == '&^':
                r = x & ~y
            else:
                raise Unsupported('int binop ' + op)
            return wrap_const(r, lo, hi)
        if op == '+':
            return simp(wrap_sym(x + y, lo, hi, True))
        if op == '-':
            return simp(wrap_sym(x - y, lo, hi, True))
        if op == '*':
            return simp(wrap_sym(x * y, lo, hi, False))
        if op in ('/', '%'):
            if is_sym(y):
                if self.branch(y == 0):
                    raise GoPanic('integer divide by zero')
            elif y == 0:
                raise GoPanic('integer divide by zero')
            xx, yy = zint(x), zint(y)
            ax = z3.If(xx >= 0, xx, -xx)
            ay = z3.If(yy >= 0, yy, -yy)
            q = ax / ay
            if op == '/':
                r = z3.If((xx < 0) != (yy < 0), -q, q)
                return simp(wrap_sym(r, lo, hi, True))
            r = ax - ay * q
            return simp(z3.If(xx < 0, -r, r))
        if op in ('<<', '>>') and not is_sym(y):
            if op == '<<':
                return simp(wrap_sym(x * (2 ** y), lo, hi, False))
            return simp(x / (2 ** y)) if lo == 0 else simp(z3.If(x >= 0, x / (2 ** y), -((-x + (2 ** y) - 1) / (2 ** y))))
        if op == '&' and not is_sym(y) and y >= 0 and (y & (y + 1)) == 0 and lo == 0:
            return simp(x % (y + 1))
        raise Unsupported('symbolic int binop %s' % op)

    def convert(self, v, ft, tt):
        p = self.prog
        fb, tb = p.basic(ft), p.basic(tt)
        fd, td = p.under(ft), p.under(tt)
        if tb in INT_RANGES:
            lo, hi = INT_RANGES[tb]
            if isinstance(v, FloatV):
                from . import fpmodel
                return fpmodel.to_int(self, v, lo, hi)
            if fb in INT_RANGES or fb == 'int' or fb is None and isinstance(v, int):
                flo, fhi = INT_RANGES.get(fb, (lo, hi))
                if flo >= lo and fhi <= hi:
                    return v
                if not is_sym(v):
                    return wrap_const(v, lo, hi)
                return simp(wrap_sym(v, lo, hi, False))
        if tb in ('float64', 'float32'):
            from . import fpmodel
            return fpmodel.from_int(self, v) if not isinstance(v, FloatV) else v
        if tb == 'string':
            if fb == 'string':
                return v
            if fd['k'] == 'slice':   # []byte -> string
                if isinstance(v, OpaqueBytes):
                    return v
                its = v.items()
                if all(isinstance(x, int) for x in its):
                    return bytes(its).decode('utf-8', 'surrogateescape')
                raise Unsupported('[]byte(symbolic) -> string')
            if fb in INT_RANGES:
                if isinstance(v, int):
                    return chr(v)
                return z3.StrFromCode(v)
        if td['k'] == 'slice' and fb == 'string':
            if isinstance(v, str):
                return self.mkslice(list(v.encode('utf-8')))
            if isinstance(v, OpaqueBytes):
                return v
            return SymBytes(v)
        if td['k'] == 'ptr' or tb in ('unsafe.Pointer', 'Pointer') or fb in ('unsafe.Pointer', 'Pointer'):
            return v
        if td['k'] == fd['k']:
            return v
        raise Unsupported('convert %s -> %s' % (ft, tt))

    # ---- interpreter
    def run(self, fn, args, fv):
        name = fn['name']
        ex = self.executed
        ex[name] = ex.get(name, 0) + 1
        if self.trace_calls:
            sys.stderr.write('  ' * len(self.frames) + '> ' + name + '\n')
        if len(self.frames) > 200:
            raise Unsupported('call depth exceeded in ' + name)
        fr = Frame(fn, list(args), list(fv))
        self.frames.append(fr)
        try:
            try:
                res = self.run_blocks(fr, 0)
            except GoPanic as p:
                if not p.where:
                    p.where = name
                fr.panicking = p
                self.run_defers(fr)
                if fr.panicking is not None:
                    raise fr.panicking
                # recovered
                if 'recover' in fn:
                    res = self.run_blocks(fr, fn['recover'])
                else:
                    sig = self.prog.types[fn['sig']]
                    zs = [self.zero(t) for t in sig['results']]
                    res = None if not zs else zs[0] if len(zs) == 1 else tuple(zs)
            return res
        finally:
            self.frames.pop()
            if self.trace_calls:
                sys.stderr.write('  ' * len(self.frames) + '< ' + name + '\n')

    def run_defers(self, fr):
        fr.in_defers = True
        try:
            while fr.defers:
                kind, f, a = fr.defers.pop()
                try:
                    if kind == 'value':
                        self.call_value(f, a)
                    elif kind == 'named':
                        self.call_named(f, a)
                    elif kind == 'invoke':
                        self.invoke(f[0], f[1], a)
                    elif kind == 'builtin':
                        self.builtin(fr, f, a, None)
                except GoPanic as p2:
                    fr.panicking = p2
        finally:
            fr.in_defers = False

    def run_blocks(self, fr, start):
        fn = fr.fn
        blocks = fn['_b']
        cur = start
        prev = -1
        regs = fr.regs
        while True:
            b = blocks[cur]
            n = fr.visits.get(cur, 0) + 1
            fr.visits[cur] = n
            if n > self.unwind:
                raise UnwindExceeded('%s block %d' % (fn['name'], cur))
            nxt = None
            for ins in b['ins']:
                self.cur = ins
                self.steps += 1
                if self.steps > self.max_steps:
                    raise UnwindExceeded('step budget exceeded in ' + fn['name'])
                op = ins['op']
                if op == 'Phi':
                    idx = b['preds'].index(prev)
                    regs[ins['r']] = self.val(fr, ins['edges'][idx])
                    continue
                h = OPS.get(op)
                if h is None:
                    raise Unsupported('instruction ' + op)
                r = h(self, fr, ins, b)
                if r is not None:
                    if r[0] == 'jump':
                        nxt = r[1]
                        break
                    if r[0] == 'ret':
                        return r[1]
            if nxt is None:
                raise Unsupported('fell off block %d of %s' % (cur, fn['name']))
            prev = cur
            cur = nxt

    # ---- pointers
    def deref_check(self, p, what=''):
        if p is None:
            raise GoPanic('nil pointer dereference ' + what)
        if isinstance(p, Ptr) and p.nilc is not None:
            if self.branch(p.nilc):
                raise GoPanic('nil pointer dereference (symbolic) ' + what)
            # on this path the pointer is non-nil
        return p

    def load(self, p):
        self.deref_check(p, 'load')
        if isinstance(p, Ptr):
            return self.copyval(p.get())
        hook = getattr(p, 'go_load', None)
        if hook is not None:
            return hook(self)
        raise Unsupported('load from %r' % (p,))

    def store(self, p, v):
        self.deref_check(p, 'store')
        if isinstance(p, Ptr):
            p.set(self.copyval(v))
            return
        raise Unsupported('store to %r' % (p,))


class SymBytes:
    """[]byte view of a symbolic z3 string"""
    __slots__ = ('s',)

    def __init__(self, s):
        self.s = s


# ---------------------------------------------------------------- instruction handlers
def op_alloc(ex, fr, ins, b):
    fr.regs[ins['r']] = Ptr(Cell(ex.zero(ins['et'])), 'v')


def op_binop(ex, fr, ins, b):
    fr.regs[ins['r']] = ex.binop(ins['o'], ex.val(fr, ins['x']), ex.val(fr, ins['y']), ins['xt'], ins['t'])


def op_unop(ex, fr, ins, b):
    o = ins['o']
    x = ex.val(fr, ins['x'])
    if o == '*':
        fr.regs[ins['r']] = ex.load(x)
    elif o == '!':
        fr.regs[ins['r']] = Not(x)
    elif o == '-':
        if isinstance(x, FloatV):
            from . import fpmodel
            fr.regs[ins['r']] = fpmodel.neg(ex, x)
        else:
            fr.regs[ins['r']] = ex.binop('-', 0, x, ins['xt'], ins['t'])
    elif o == '<-':
        fr.regs[ins['r']] = ex.xp.chan_recv(ex, x, ins['commaok'], ins['t'])
    elif o == '^':
        lo, hi = ex.prog.int_range(ins['t'])
        if is_sym(x):
            fr.regs[ins['r']] = simp((hi - x) if lo == 0 else (-x - 1))
        else:
            fr.regs[ins['r']] = (hi - x) if lo == 0 else (-x - 1)
    else:
        raise Unsupported('unop ' + o)


def op_call(ex, fr, ins, b):
    fr.regs[ins['r']] = ex.do_call(fr, ins['call'])


def op_defer(ex, fr, ins, b):
    c = ins['call']
    args = [ex.val(fr, a) for a in c['args']]
    if 'invoke' in c:
        fr.defers.append(('invoke', (ex.val(fr, c['v']), c['invoke']), args))
    elif isinstance(c['v'], dict) and 'b' in c['v']:
        fr.defers.append(('builtin', c['v']['b'], args))
    else:
        fv = ex.val(fr, c['v'])
        fr.defers.append(('value', fv, args))


def op_go(ex, fr, ins, b):
    c = ins['call']
    args = [ex.val(fr, a) for a in c['args']]
    if 'invoke' in c:
        ex.goroutines.append(('invoke', (ex.val(fr, c['v']), c['invoke']), args))
    else:
        ex.goroutines.append(('value', ex.val(fr, c['v']), args))
    ex.events.append(('go', len(ex.goroutines) - 1))


def op_rundefers(ex, fr, ins, b):
    ex.run_defers(fr)
    if fr.panicking is not None:
        p = fr.panicking
        fr.panicking = None
        raise p


def op_changeiface(ex, fr, ins, b):
    fr.regs[ins['r']] = ex.val(fr, ins['x'])


def op_changetype(ex, fr, ins, b):
    v = ex.val(fr, ins['x'])
    if isinstance(v, Struct):
        v = ex.copyval(v)
        v.t = ins['t']
    fr.regs[ins['r']] = v


def op_convert(ex, fr, ins, b):
    fr.regs[ins['r']] = ex.convert(ex.val(fr, ins['x']), ins['xt'], ins['t'])


def op_extract(ex, fr, ins, b):
    fr.regs[ins['r']] = ex.val(fr, ins['x'])[ins['i']]


def op_field(ex, fr, ins, b):
    fr.regs[ins['r']] = ex.copyval(ex.val(fr, ins['x']).f[ins['i']])


def op_fieldaddr(ex, fr, ins, b):
    p = ex.val(fr, ins['x'])
    ex.deref_check(p, 'field %s of %s' % (ins['i'], ins.get('ln')))
    if isinstance(p, Ptr):
        s = p.get()
        if isinstance(s, Struct):
            fr.regs[ins['r']] = Ptr(s, ins['i'])
            return
        hook = getattr(s, 'go_fieldaddr', None)
        if hook is not None:
            fr.regs[ins['r']] = hook(ex, ins['i'])
            return
    hook = getattr(p, 'go_fieldaddr', None)
    if hook is not None:
        fr.regs[ins['r']] = hook(ex, ins['i'], ins)
        return
    raise Unsupported('FieldAddr on %r in %s' % (p, fr.fn['name']))


def sym_index(ex, idx, n, what):
    """resolve a (possibly symbolic) index against concrete length n -> concrete int (forks)"""
    if not is_sym(idx):
        if idx < 0 or idx >= n:
            raise GoPanic('index out of range [%d] with length %d (%s)' % (idx, n, what))
        return idx
    if ex.branch(Or(idx < 0, idx >= n)):
        raise GoPanic('index out of range (symbolic) with length %d (%s)' % (n, what))
    for i in range(n - 1):
        if ex.branch(idx == i):
            return i
    return n - 1


def op_index(ex, fr, ins, b):
    x = ex.val(fr, ins['x'])
    i = ex.val(fr, ins['y'])
    hook = getattr(x, 'go_index', None)
    if hook is not None:
        fr.regs[ins['r']] = hook(ex, i)
        return
    if isinstance(x, str):
        bs = x.encode('utf-8')
        i = sym_index(ex, i, len(bs), 'string')
        fr.regs[ins['r']] = bs[i]
        return
    if isinstance(x, Array):
        i = sym_index(ex, i, len(x.f), 'array')
        fr.regs[ins['r']] = ex.copyval(x.f[i])
        return
    if is_sym(x) and x.sort() == z3.StringSort():
        ln = z3.Length(x)
        if ex.branch(Or(zint(i) < 0, zint(i) >= ln)):
            raise GoPanic('index out of range (symbolic string)')
        fr.regs[ins['r']] = simp(z3.StrToCode(z3.SubString(x, zint(i), 1)))
        return
    raise Unsupported('Index on %r' % (x,))


def op_indexaddr(ex, fr, ins, b):
    x = ex.val(fr, ins['x'])
    i = ex.val(fr, ins['y'])
    if isinstance(x, Slice):
        if is_sym(x.len):
            raise Unsupported('IndexAddr into slice of symbolic length')
        i = sym_index(ex, i, x.len, 'slice in %s:%s' % (fr.fn['name'], ins.get('ln')))
        fr.regs[ins['r']] = Ptr(x.arr, x.off + i)
        return
    if isinstance(x, Ptr):
        ex.deref_check(x)
        a = x.get()
        if isinstance(a, Array):
            i = sym_index(ex, i, len(a.f), 'array')
            fr.regs[ins['r']] = Ptr(a, i)
            return
    if x is None:
        raise GoPanic('index of nil')
    raise Unsupported('IndexAddr on %r' % (x,))


def op_lookup(ex, fr, ins, b):
    m = ex.val(fr, ins['x'])
    k = ex.val(fr, ins['y'])
    et = ex.prog.under(ins['xt'])
    if et['k'] == 'basic':  # string index
        raise Unsupported('Lookup on string')
    zero = ex.zero(et['elem'])
    res = None
    if isinstance(m, SymMap):
        kk = zstr(k)
        ok = simp(z3.Select(m.has, kk))
        v = simp(z3.If(ok, z3.Select(m.val, kk), z3.StringVal(''))) if is_sym(ok) else (simp(z3.Select(m.val, kk)) if ok else '')
        res = (v, ok)
    elif isinstance(m, MapObj):
        res = (zero, False)
        for kk, vv in m.ents:
            if ex.branch(ex.eq(kk, k)):
                res = (ex.copyval(vv), True)
                break
    elif m is None:
        res = (zero, False)
    else:
        hook = getattr(m, 'go_lookup', None)
        if hook is None:
            raise Unsupported('Lookup on %r' % (m,))
        res = hook(ex, k, zero)
    fr.regs[ins['r']] = res if ins['commaok'] else res[0]


def op_mapupdate(ex, fr, ins, b):
    m = ex.val(fr, ins['m'])
    k = ex.val(fr, ins['k'])
    v = ex.val(fr, ins['v'])
    if isinstance(m, MapObj):
        for e in m.ents:
            if ex.branch(ex.eq(e[0], k)):
                e[1] = ex.copyval(v)
                return
        m.ents.append([k, ex.copyval(v)])
        return
    if m is None:
        raise GoPanic('assignment to entry in nil map')
    if isinstance(m, SymMap):
        m.has = z3.Store(m.has, zstr(k), z3.BoolVal(True))
        m.val = z3.Store(m.val, zstr(k), zstr(v))
        return
    raise Unsupported('MapUpdate on %r' % (m,))


def op_makemap(ex, fr, ins, b):
    fr.regs[ins['r']] = MapObj()


def op_makeslice(ex, fr, ins, b):
    n = ex.val(fr, ins['len'])
    c = ex.val(fr, ins['cap'])
    if is_sym(n) or is_sym(c):
        raise Unsupported('MakeSlice with symbolic size')
    if n < 0 or c < n:
        raise GoPanic('makeslice: len out of range')
    et = ex.prog.under(ins['t'])['elem']
    arr = Array([ex.zero(et) for _ in range(c)])
    fr.regs[ins['r']] = Slice(arr, 0, n, c)


def op_makechan(ex, fr, ins, b):
    n = ex.val(fr, ins['x'])
    fr.regs[ins['r']] = Chan(n)


def op_makeclosure(ex, fr, ins, b):
    fr.regs[ins['r']] = Closure(ins['fn']['fn'], [ex.val(fr, x) for x in ins['b']])


def op_makeiface(ex, fr, ins, b):
    v = ex.val(fr, ins['x'])
    fr.regs[ins['r']] = Iface(ins['xt'], ex.copyval(v))


def op_typeassert(ex, fr, ins, b):
    x = ex.val(fr, ins['x'])
    at = ins['at']
    ad = ex.prog.types[at]
    is_if = ex.prog.under(at)['k'] == 'iface'
    ok = False
    res = None
    if x is not None:
        if not isinstance(x, Iface):
            hook = getattr(x, 'go_typeassert', None)
            if hook is None:
                raise Unsupported('TypeAssert on %r' % (x,))
            ok, res = hook(ex, at)
        elif is_if:
            need = ex.prog.under(at)['methods']
            ms = ex.prog.msets.get(x.t)
            hook = getattr(x.v, 'go_implements', None)
            if hook is not None:
                ok = hook(ex, at, need)
            elif ms is None:
                ok = len(need) == 0 or ex.xp.implements(ex, x, at, need)
            else:
                ok = all(m in ms for m in need)
            res = x
        else:
            ok = (x.t == at)
            res = x.v
    if ins['commaok']:
        fr.regs[ins['r']] = (res if ok else ex.zero(at), ok)
    else:
        if not ok:
            raise GoPanic('interface conversion: %r is not %s' % (x, at), fr.fn['name'])
        fr.regs[ins['r']] = res


def op_slice(ex, fr, ins, b):
    x = ex.val(fr, ins['x'])
    lo = ex.val(fr, ins['lo']) if ins['lo'] is not None else None
    hi = ex.val(fr, ins['hi']) if ins['hi'] is not None else None
    mx = ex.val(fr, ins['max']) if ins['max'] is not None else None
    if isinstance(x, str):
        bs = x.encode('utf-8')
        lo = 0 if lo is None else lo
        hi = len(bs) if hi is None else hi
        if is_sym(lo) or is_sym(hi):
            raise Unsupported('symbolic slice bounds on concrete string')
        if lo < 0 or hi > len(bs) or lo > hi:
            raise GoPanic('slice bounds out of range')
        fr.regs[ins['r']] = bs[lo:hi].decode('utf-8', 'surrogateescape')
        return
    if is_sym(x) and x.sort() == z3.StringSort():
        lo = 0 if lo is None else lo
        hi = z3.Length(x) if hi is None else hi
        if ex.branch(Or(zint(lo) < 0, zint(hi) > z3.Length(x), zint(lo) > zint(hi))):
            raise GoPanic('slice bounds out of range (symbolic string)')
        fr.regs[ins['r']] = simp(z3.SubString(x, zint(lo), zint(hi) - zint(lo)))
        return
    if isinstance(x, Ptr):  # pointer to array
        a = x.get()
        if isinstance(a, Array):
            n = len(a.f)
            lo = 0 if lo is None else lo
            hi = n if hi is None else hi
            fr.regs[ins['r']] = Slice(a, lo, hi - lo, (mx if mx is not None else n) - lo)
            return
        hook = getattr(a, 'go_slice', None) or getattr(x, 'go_slice', None)
        if hook:
            fr.regs[ins['r']] = hook(ex, lo, hi)
            return
        if isinstance(a, int) or is_sym(a):
            # byte view of an atomically modelled value (uuid.UUID, or an integer through unsafe.Pointer)
            n = ex.prog.under(ex.prog.types[ins['xt']]['elem']).get('len', 16)
            fr.regs[ins['r']] = OpaqueBytes(a, n)
            return
    if isinstance(x, Slice):
        lo = 0 if lo is None else lo
        hi = x.len if hi is None else hi
        if is_sym(lo) or is_sym(hi):
            # fork to concrete
            lo = sym_index(ex, lo, x.cap + 1, 'slice lo') if is_sym(lo) else lo
            hi = sym_index(ex, hi, x.cap + 1, 'slice hi') if is_sym(hi) else hi
        cap = x.cap if mx is None else mx
        if lo < 0 or hi > cap or lo > hi:
            raise GoPanic('slice bounds out of range [%s:%s] cap %s' % (lo, hi, x.cap))
        if x.arr is None:
            fr.regs[ins['r']] = Slice(None, 0, 0, 0)
            return
        # materialise capacity if needed
        while len(x.arr.f) < x.off + hi:
            x.arr.f.append(0)
        fr.regs[ins['r']] = Slice(x.arr, x.off + lo, hi - lo, cap - lo)
        return
    raise Unsupported('Slice on %r' % (x,))


def op_range(ex, fr, ins, b):
    x = ex.val(fr, ins['x'])
    if isinstance(x, MapObj):
        items = [(k, ex.copyval(v)) for k, v in x.ents]
        items = ex.xp.map_order(ex, items)
        fr.regs[ins['r']] = MapIter(items)
    elif x is None:
        fr.regs[ins['r']] = MapIter([])
    elif isinstance(x, str):
        fr.regs[ins['r']] = MapIter([(i, ord(c)) for i, c in str_runes(x)])
    elif isinstance(x, SymMap):
        # bounded: a ranged-over symbolic map has at most RANGE_BOUND entries (larger maps are outside the claim, stated as a
        # bound by the checks that reach this).  The entry set is fixed *exactly* (an explicit store chain, no quantifier);
        # the keys are fresh symbols, so every iteration order is covered.
        K = getattr(ex.xp, 'symmap_range_bound', 2)
        n = ex.choose(K + 1, 'range-symmap')
        ex.xp.stats['symmap_ranges'] = ex.xp.stats.get('symmap_ranges', 0) + 1
        keys = [ex.fresh('mapkey', 'str') for _ in range(n)]
        has = z3.K(z3.StringSort(), z3.BoolVal(False))
        for k in keys:
            has = z3.Store(has, k, z3.BoolVal(True))
        if n >= 2:
            ex.assume(z3.Distinct(*keys))
        ex.assume(x.has == has)
        if x.nil is not False and n > 0:
            ex.assume(Not(x.nil))
        if getattr(x, 'size', None) is not None:
            ex.assume(x.size == n)
        fr.regs[ins['r']] = MapIter([(k, z3.Select(x.val, k)) for k in keys])
    else:
        hook = getattr(x, 'go_range', None)
        if hook is None:
            raise Unsupported('Range over %r' % (x,))
        fr.regs[ins['r']] = MapIter(hook(ex))


def str_runes(s):
    off = 0
    for c in s:
        yield off, c
        off += len(c.encode('utf-8'))


def op_next(ex, fr, ins, b):
    it = ex.val(fr, ins['x'])
    if it.i < len(it.items):
        k, v = it.items[it.i]
        it.i += 1
        fr.regs[ins['r']] = (True, k, v)
    else:
        td = ex.prog.types[ins['t']]
        fr.regs[ins['r']] = (False, ex.zero(td['elems'][1]) if td['elems'][1] != 'invalid type' else None,
                             ex.zero(td['elems'][2]) if td['elems'][2] != 'invalid type' else None)


def op_store(ex, fr, ins, b):
    ex.store(ex.val(fr, ins['addr']), ex.val(fr, ins['v']))


def op_if(ex, fr, ins, b):
    c = ex.val(fr, ins['x'])
    if ex.xp.profile_forks and 'ln' not in ins and isinstance(ins['x'], str):
        for i2 in b['ins']:
            if i2.get('r') == ins['x'][2:] and 'ln' in i2:
                ex.cur = dict(ins, ln=i2['ln'])
                break
    return ('jump', b['succs'][0] if ex.branch(c) else b['succs'][1])


def op_jump(ex, fr, ins, b):
    return ('jump', b['succs'][0])


def op_return(ex, fr, ins, b):
    rs = [ex.val(fr, r) for r in ins['res']]
    if not rs:
        return ('ret', None)
    if len(rs) == 1:
        return ('ret', rs[0])
    return ('ret', tuple(rs))


def op_panic(ex, fr, ins, b):
    raise GoPanic(ex.val(fr, ins['x']), '%s:%s' % (fr.fn['name'], ins.get('ln')))


def op_select(ex, fr, ins, b):
    states = [(s['dir'], ex.val(fr, s['chan']), ex.val(fr, s['send']) if s['send'] is not None else None) for s in ins['states']]
    fr.regs[ins['r']] = ex.xp.select(ex, states, ins['blocking'], ins['t'])


def op_send(ex, fr, ins, b):
    ex.xp.chan_send(ex, ex.val(fr, ins['chan']), ex.val(fr, ins['x']))


def op_s2ap(ex, fr, ins, b):
    x = ex.val(fr, ins['x'])
    hook = getattr(x, 'go_s2ap', None)
    if hook:
        fr.regs[ins['r']] = hook(ex)
        return
    raise Unsupported('SliceToArrayPointer')


OPS = {
    'Alloc': op_alloc, 'BinOp': op_binop, 'UnOp': op_unop, 'Call': op_call, 'Defer': op_defer, 'Go': op_go,
    'RunDefers': op_rundefers, 'ChangeInterface': op_changeiface, 'ChangeType': op_changetype,
    'Convert': op_convert, 'Extract': op_extract, 'Field': op_field, 'FieldAddr': op_fieldaddr,
    'Index': op_index, 'IndexAddr': op_indexaddr, 'Lookup': op_lookup, 'MapUpdate': op_mapupdate,
    'MakeMap': op_makemap, 'MakeSlice': op_makeslice, 'MakeChan': op_makechan, 'MakeClosure': op_makeclosure,
    'MakeInterface': op_makeiface, 'TypeAssert': op_typeassert, 'Slice': op_slice, 'Range': op_range,
    'Next': op_next, 'Store': op_store, 'If': op_if, 'Jump': op_jump, 'Return': op_return, 'Panic': op_panic,
    'Select': op_select, 'Send': op_send, 'SliceToArrayPointer': op_s2ap,
}


# ---------------------------------------------------------------- explorer
class PathResult:
    def __init__(self, kind, dec, info=None):
        self.kind = kind      # 'done' | 'infeasible' | 'unsupported' | 'unwind' | 'panic' | 'abort'
        self.dec = dec
        self.info = info


class Explorer:
    """runs harness(ex) on every feasible path"""

    def __init__(self, prog, intrinsics=None, patterns=None, unwind=40, query_timeout_ms=20000, max_paths=20000,
                 max_steps=400000, trace_calls=False):
        self.prog = prog
        self.intrinsics = dict(intrinsics or {})
        self.patterns = list(patterns or [])
        self.pat_cache = {}
        self.unwind = unwind
        self.query_timeout_ms = query_timeout_ms
        self.max_paths = max_paths
        self.max_steps = max_steps
        self.trace_calls = trace_calls
        self.global_init = {}
        self.merge_funcs = set()
        self.profile_forks = False
        self.fork_sites = {}
        self.fork_ctx = None
        self.nsummaries = 0
        self.work = []
        self.nqueries = 0
        self.solver_time = 0.0
        self.unknowns = 0
        self.executed = {}
        self.paths = []
        self.stats = {'done': 0, 'infeasible': 0, 'unsupported': 0, 'unwind': 0, 'panic': 0, 'abort': 0}
        self.unsupported = {}

    def push_alt(self, dec):
        self.work.append(dec)

    # default environment hooks (overridable)
    def map_order(self, ex, items):
        return items

    def implements(self, ex, x, at, need):
        raise Unsupported('implements? %s for %s' % (at, x.t))

    def chan_recv(self, ex, ch, commaok, t):
        raise Unsupported('channel receive')

    def chan_send(self, ex, ch, v):
        if isinstance(ch, Chan):
            if ch.closed:
                raise GoPanic('send on closed channel')
            ch.q.append(v)
            ex.events.append(('send', ch, v))
            return
        raise Unsupported('channel send on %r' % (ch,))

    def select(self, ex, states, blocking, t):
        """default: a blocked select is released by its first timer (time.After) case"""
        zero = tuple([ex.zero(x) for x in ex.prog.types[t]['elems'][2:]])
        # receivable: a queued value, or a closed channel
        nrecv = -1
        ready = []
        for idx, (d, c, snd) in enumerate(states):
            if d == 2:
                nrecv += 1
                if isinstance(c, Chan) and c.q:
                    ready.append((idx, nrecv))
        if ready:
            idx, k = ready[ex.choose(len(ready))] if len(ready) > 1 else ready[0]
            v = states[idx][1].q.pop(0)
            vals = list(zero)
            vals[k] = v
            return (idx, True) + tuple(vals)
        for idx, (d, c, snd) in enumerate(states):
            if isinstance(c, Chan) and c.closed and d == 2:
                return (idx, False) + zero
        for idx, (d, c, snd) in enumerate(states):
            if isinstance(c, Chan) and getattr(c, 'name', None) == 'timer' and d == 2:
                ex.events.append(('timer-fired', c))
                return (idx, True) + zero
        if not blocking:
            return (-1, False) + zero
        raise Unsupported('select with no timer case')

    def run(self, harness, on_path=None, stop_after=None, want_open=None, initial=None):
        """harness(ex) -> any; on_path(ex, kind, result_or_exc)"""
        self.work = [[]] if initial is None else list(initial)
        npaths = 0
        while self.work:
            if stop_after is not None and npaths >= stop_after and len(self.work) >= (want_open or 1):
                break
            # breadth-first while seeding a parallel run (gives well-spread prefixes), depth-first otherwise
            prefix = self.work.pop(0) if stop_after is not None else self.work.pop()
            npaths += 1
            if npaths > self.max_paths:
                self.stats['truncated'] = self.stats.get('truncated', 0) + len(self.work) + 1
                self.work = []
                break
            ex = Exec(self.prog, self, prefix)
            kind, info = 'done', None
            try:
                info = harness(ex)
            except SystemExit:
                raise
            except Infeasible:
                kind = 'infeasible'
            except PathAbort as e:
                kind, info = 'abort', e
            except Unsupported as e:
                kind, info = 'unsupported', e
                k = str(e)
                self.unsupported[k] = self.unsupported.get(k, 0) + 1
            except UnwindExceeded as e:
                kind, info = 'unwind', e
            except GoPanic as e:
                kind, info = 'panic', e
            self.stats[kind] += 1
            if on_path is not None:
                on_path(ex, kind, info)
        return self.stats


class ForkCtx:
    """process-level path forking: at a two-sided branch the process forks; the child takes the alternative.
    No re-execution, the solver state is inherited.  At most `jobs` paths run concurrently."""

    def __init__(self, jobs, max_paths, on_child):
        import multiprocessing as mp
        self.sem = mp.Semaphore(max(jobs - 1, 0))
        self.budget = mp.Value('i', max_paths)
        self.truncated = mp.Value('i', 0)
        self.on_child = on_child
        self.children = []
        self.holds_sem = False
        self.is_child = False
        self.root = os.getpid()

    def spawn(self):
        """returns True in the child (which must take the alternative), False in the parent"""
        with self.budget.get_lock():
            if self.budget.value <= 0:
                with self.truncated.get_lock():
                    self.truncated.value += 1
                return False
            self.budget.value -= 1
        sys.stdout.flush()
        sys.stderr.flush()
        got = self.sem.acquire(block=False)
        pid = os.fork()
        if pid == 0:
            self.is_child = True
            self.holds_sem = got
            self.children = []
            self.on_child()
            return True
        if got:
            self.children.append(pid)
        else:
            os.waitpid(pid, 0)
        return False

    def finish(self):
        for pid in self.children:
            try:
                os.waitpid(pid, 0)
            except ChildProcessError:
                pass
        self.children = []
        if self.holds_sem:
            self.sem.release()
            self.holds_sem = False
