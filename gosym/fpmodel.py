"""floating point: concrete python floats where possible; symbolic values use the standard model of
floating-point arithmetic (each operation returns exact*(1+d), |d| <= 2^-53) over z3 Reals."""
import math
from fractions import Fraction
import z3
from .core import *

U = Fraction(1, 2**53)


def real_of(x):
    """FloatV payload -> (python float | z3 Real)"""
    if isinstance(x, FloatV):
        x = x.r
    if isinstance(x, str):
        # exact constant string such as "11/10" or "1e+09"
        try:
            return float(Fraction(x))
        except Exception:
            return float(x)
    return x


def is_conc(x):
    return isinstance(x, (int, float))


def rounded(ex, exact):
    """fresh real within relative error U of exact (exact: z3 Real)"""
    r = ex.fresh('fp', 'real')
    u = z3.RealVal(U)
    ex.assume(z3.If(exact >= 0, z3.And(r >= exact * (1 - u), r <= exact * (1 + u)), z3.And(r <= exact * (1 - u), r >= exact * (1 + u))))
    return r


def zreal(x):
    if is_sym(x):
        return x if z3.is_real(x) else z3.ToReal(x)
    return z3.RealVal(Fraction(x) if isinstance(x, float) else x)


def from_int(ex, v):
    if not is_sym(v):
        return FloatV(float(v))
    # int64 -> float64 conversion rounds when |v| > 2^53
    return FloatV(rounded(ex, z3.ToReal(v)))


def binop(ex, op, x, y):
    a, b = real_of(x), real_of(y)
    if is_conc(a) and is_conc(b):
        if op in ('<', '<=', '>', '>=', '==', '!='):
            return {'<': a < b, '<=': a <= b, '>': a > b, '>=': a >= b, '==': a == b, '!=': a != b}[op]
        return FloatV({'+': a + b, '-': a - b, '*': a * b, '/': a / b if b != 0 else math.inf}[op])
    ra, rb = zreal(a), zreal(b)
    if op in ('<', '<=', '>', '>='):
        return simp({'<': ra < rb, '<=': ra <= rb, '>': ra > rb, '>=': ra >= rb}[op])
    if op == '*':
        return FloatV(rounded(ex, ra * rb))
    if op == '+':
        return FloatV(rounded(ex, ra + rb))
    if op == '-':
        return FloatV(rounded(ex, ra - rb))
    if op == '/':
        return FloatV(rounded(ex, ra / rb))
    raise Unsupported('float binop ' + op)


def cmp(ex, op, x, y):
    a, b = real_of(x), real_of(y)
    if is_conc(a) and is_conc(b):
        return a == b
    return simp(zreal(a) == zreal(b))


def neg(ex, x):
    a = real_of(x)
    return FloatV(-a)


def to_int(ex, v, lo, hi):
    a = real_of(v)
    if is_conc(a):
        if math.isnan(a) or math.isinf(a):
            return lo
        t = int(a)
        return t if lo <= t <= hi else lo
    # truncation toward zero of a real
    t = z3.If(a >= 0, z3.ToInt(a), -z3.ToInt(-a))
    return simp(t)


def dur_seconds(ex, d):
    """time.Duration.Seconds(): sec := d / Second; nsec := d % Second; float64(sec) + float64(nsec)/1e9"""
    if not is_sym(d):
        sec, nsec = (abs(d) // 10**9) * (1 if d >= 0 else -1), (abs(d) % 10**9) * (1 if d >= 0 else -1)
        return FloatV(float(sec) + float(nsec) / 1e9)
    if not ex.env.get('fp_precise'):
        # metrics/timers: the value is irrelevant to every modelled effect
        return FloatV(ex.fresh('fp', 'real'))
    # exact value d/1e9; float64(sec) exact below 2^53 s, float64(nsec)/1e9 one rounding, the sum one rounding
    exact = z3.ToReal(d) / z3.RealVal(10**9)
    u = z3.RealVal(U)
    r = ex.fresh('fp', 'real')
    # two roundings: within 2U(1+U) relative of the exact value
    e2 = 2 * u + u * u
    ex.assume(z3.If(exact >= 0, z3.And(r >= exact * (1 - e2), r <= exact * (1 + e2)), z3.And(r <= exact * (1 - e2), r >= exact * (1 + e2))))
    return FloatV(r)


_POW = {}


def go_pow(ex, x, y):
    """math.Pow for concrete arguments, computed by the installed Go runtime (not by libm)"""
    a, b = real_of(x), real_of(y)
    if not (is_conc(a) and is_conc(b)):
        raise Unsupported('math.Pow with symbolic arguments')
    key = (float(a), float(b))
    if key not in _POW:
        tab = ex.env.get('pow_table') or {}
        if key in tab:
            _POW[key] = tab[key]
        else:
            raise Unsupported('math.Pow(%r,%r) not in the precomputed table' % key)
    return FloatV(_POW[key])


def go_pow_table(base, ns):
    """run the real math.Pow of the installed Go toolchain for base^n, n in ns -> {(base,n): float}"""
    import subprocess, tempfile, os, struct
    from .runner import GOENV
    d = tempfile.mkdtemp(prefix='verif-pow-')
    try:
        src = os.path.join(d, 'main.go')
        with open(src, 'w') as fh:
            fh.write('package main\nimport ("fmt";"math")\nfunc main(){ for n:=0;n<=%d;n++ { fmt.Println(n, math.Float64bits(math.Pow(%r, float64(n)))) } }\n' % (max(ns), base))
        out = subprocess.run(['go', 'run', src], capture_output=True, text=True, env=dict(GOENV, GOFLAGS=''), cwd=d, timeout=300)
        if out.returncode != 0:
            raise RuntimeError(out.stderr)
        tab = {}
        for line in out.stdout.split('\n'):
            if line.strip():
                n, bits = line.split()
                tab[(float(base), float(int(n)))] = struct.unpack('>d', struct.pack('>Q', int(bits)))[0]
        return tab
    finally:
        import shutil
        shutil.rmtree(d, ignore_errors=True)
