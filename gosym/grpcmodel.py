"""environment model for google.golang.org/grpc status/codes and protobuf well-known types"""
import re
import z3
from .core import *
from .stdlib import intr, pat, GoError, mkerr, INTR, PATS

CODES = {0: 'OK', 1: 'Canceled', 2: 'Unknown', 3: 'InvalidArgument', 4: 'DeadlineExceeded', 5: 'NotFound', 6: 'AlreadyExists',
         7: 'PermissionDenied', 8: 'ResourceExhausted', 9: 'FailedPrecondition', 10: 'Aborted', 11: 'OutOfRange', 12: 'Unimplemented',
         13: 'Internal', 14: 'Unavailable', 15: 'DataLoss', 16: 'Unauthenticated'}


class StatusError(GoError):
    def __init__(self, code, msg):
        GoError.__init__(self, 'status', msg)
        self.code = code

    def go_implements(self, ex, at, need):
        return set(need) <= {'GRPCStatus', 'Error'}

    def go_invoke(self, ex, method, args):
        if method == 'GRPCStatus':
            return Opaque('status', code=self.code, msg=self.msg)
        return GoError.go_invoke(self, ex, method, args)

    def __repr__(self):
        return 'StatusError(%s)' % (CODES.get(self.code, self.code),)


def status_err(code, msg=None):
    return Iface('err:status', StatusError(code, msg))


@intr('google.golang.org/grpc/status.Error')
def status_error(ex, args, name):
    if args[0] == 0:
        return None
    return status_err(args[0], args[1])


@intr('google.golang.org/grpc/status.Errorf')
def status_errorf(ex, args, name):
    if args[0] == 0:
        return None
    return status_err(args[0], args[1])


@intr('google.golang.org/grpc/status.FromError')
def status_fromerror(ex, args, name):
    e = args[0]
    if e is None:
        return (None, True)
    if isinstance(e, Iface) and isinstance(e.v, StatusError):
        return (Opaque('status', code=e.v.code, msg=e.v.msg), True)
    return (Opaque('status', code=2, msg='unknown'), False)


@intr('google.golang.org/grpc/status.Code')
def status_code(ex, args, name):
    e = args[0]
    if e is None:
        return 0
    if isinstance(e, Iface) and isinstance(e.v, StatusError):
        return e.v.code
    return 2


@intr('google.golang.org/grpc/status.Convert')
def status_convert(ex, args, name):
    return status_fromerror(ex, args, name)[0]


@pat(r'^\(\*google\.golang\.org/grpc/internal/status\.Status\)\.(Code|Message|Err|Proto)$')
def status_methods(ex, args, name):
    s = args[0]
    m = name.split('.')[-1]
    if m == 'Code':
        return s.code if s is not None else 0
    if m == 'Message':
        return s.msg if isinstance(getattr(s, 'msg', None), str) else ex.fresh('statusmsg', 'str')
    if m == 'Err':
        return status_err(s.code, s.msg) if s is not None and s.code != 0 else None
    raise Unsupported(name)


@intr('google.golang.org/grpc/status.ErrorProto')
def status_errorproto(ex, args, name):
    raise Unsupported('status.ErrorProto')


# ---- protobuf well-known types: executed from their real code where exported; fall-backs here
@pat(r'^go\.6river\.tech/mmmbbb/db/postgres\.(IsPostgreSQLErrorCode|RetryOnErrorCode)$')
def pg_errcode(ex, args, name):
    if name.endswith('RetryOnErrorCode'):
        return PyFunc(lambda ex_, a: False, 'retry-never')
    return (None, False)


@intr('google.golang.org/protobuf/proto.Clone')
def proto_clone(ex, args, name):
    v = args[0]
    if isinstance(v, Iface) and isinstance(v.v, Ptr):
        return Iface(v.t, Ptr(Cell(ex.copyval(v.v.get())), 'v'))
    return v


@pat(r'^\(\*google\.golang\.org/protobuf/types/known/(durationpb\.Duration|timestamppb\.Timestamp|fieldmaskpb\.FieldMask|emptypb\.Empty)\)\.(Reset|String|ProtoMessage|ProtoReflect)$')
def wkt_noise(ex, args, name):
    raise Unsupported(name)
