"""symbolic protobuf request messages (generated Go structs) for handler-level checks"""
import z3
from .core import *

SKIP = ('state', 'sizeCache', 'unknownFields')


def sym_message(ex, t, name, depth=2, lists=2, nil_ok=True, overrides=None):
    """pointer to a symbolic message of Go struct type t (nil-ness symbolic unless nil_ok=False)"""
    overrides = overrides or {}
    d = ex.prog.under(t)
    s = ex.zero(t)
    for i, f in enumerate(d['fields']):
        if f['name'] in SKIP:
            continue
        key = name + '.' + f['name']
        if key in overrides:
            s.f[i] = overrides[key]
            continue
        hook = overrides.get('#hook')
        if hook is not None:
            hv = hook(ex, key, f['name'], f['t'])
            if hv is not None:
                s.f[i] = hv[0]
                continue
        s.f[i] = sym_field(ex, f['t'], key, depth, lists, overrides)
    p = Ptr(Cell(s), 'v')
    if nil_ok:
        p.nilc = z3.Bool(name + '.isnil')
    return p


def sym_field(ex, ft, key, depth, lists, overrides):
    td = ex.prog.types[ft]
    u = ex.prog.under(ft)
    k = u['k']
    if k == 'basic':
        b = u['name']
        if b == 'string':
            return z3.String(key)
        if b == 'bool':
            return z3.Bool(key)
        if b in INT_RANGES:
            v = z3.Int(key)
            lo, hi = INT_RANGES[b]
            ex.assume(z3.And(v >= lo, v <= hi))
            return v
        if b in ('float64', 'float32'):
            return FloatV(z3.Real(key))
        raise Unsupported('proto field basic ' + b)
    if k == 'ptr':
        et = td['elem'] if td['k'] == 'ptr' else u['elem']
        eu = ex.prog.under(et)
        if eu['k'] == 'struct':
            if depth <= 0:
                return None
            return sym_message(ex, et, key, depth - 1, lists, True, overrides)
        # optional scalar
        v = sym_field(ex, et, key, depth, lists, overrides)
        return Ptr(Cell(v), 'v', nilc=z3.Bool(key + '.isnil'))
    if k == 'slice':
        et = u['elem']
        eu = ex.prog.under(et)
        if eu['k'] == 'basic' and eu['name'] in ('uint8', 'byte'):
            ln = z3.Int(key + '.len')
            ex.assume(z3.And(ln >= 0, ln < 2**31))
            return OpaqueBytes(z3.Int(key + '.id'), ln)
        n = ex.choose(lists + 1)
        items = []
        for j in range(n):
            if eu['k'] == 'ptr':
                items.append(sym_message(ex, ex.prog.types[et]['elem'], '%s[%d]' % (key, j), depth - 1, lists, False, overrides) if depth > 0 else None)
            else:
                items.append(sym_field(ex, et, '%s[%d]' % (key, j), depth, lists, overrides))
        return ex.mkslice(items) if n else Slice(None, 0, 0, 0)
    if k == 'map':
        m = SymMap(z3.Array(key + '.has', z3.StringSort(), z3.BoolSort()), z3.Array(key + '.val', z3.StringSort(), z3.StringSort()))
        m.nil = z3.Bool(key + '.isnil')
        return m
    if k == 'iface':
        # oneof: nil or one of the generated wrapper structs
        marker = u['methods'][0] if u['methods'] else None
        cases = sorted(t for t, ms in ex.prog.msets.items() if marker and marker in ms and t.startswith('*'))
        c = ex.choose(len(cases) + 1)
        if c == 0:
            return None
        wt = cases[c - 1]
        return Iface(wt, sym_message(ex, wt[1:], key, depth - 1, lists, False, overrides))
    raise Unsupported('proto field kind %s (%s)' % (k, ft))
