"""reldb: bounded symbolic relational store + model of the ent query/mutation builders.

Tables are lists of row slots (exists flag + column values, all symbolic).  The hand-written Go code
is executed by gosym; the calls it makes into the generated ent builders land here."""
import re
import z3
from .core import *
from .stdlib import intr, pat, mkerr, GoError, INTR, PATS, time_now

ENT = 'go.6river.tech/mmmbbb/ent'
ENTITIES = ['Delivery', 'Message', 'Snapshot', 'Subscription', 'Topic']
IVL = 'go.6river.tech/mmmbbb/internal/sqltypes.Interval'

# edge name -> (fk column on this entity, target entity) for M2O edges; O2M edges: (target entity, fk column on target)
M2O = {
    'Delivery': {'Message': ('message_id', 'Message'), 'Subscription': ('subscription_id', 'Subscription'),
                 'NotBefore': ('not_before_id', 'Delivery')},
    'Message': {'Topic': ('topic_id', 'Topic')},
    'Subscription': {'Topic': ('topic_id', 'Topic'), 'DeadLetterTopic': ('dead_letter_topic_id', 'Topic')},
    'Snapshot': {'Topic': ('topic_id', 'Topic')},
    'Topic': {},
}
O2M = {
    'Topic': {'Subscriptions': ('Subscription', 'topic_id'), 'Messages': ('Message', 'topic_id')},
    'Subscription': {'Deliveries': ('Delivery', 'subscription_id')},
    'Message': {'Deliveries': ('Delivery', 'message_id')},
    'Delivery': {'NextReady': ('Delivery', 'not_before_id')},
    'Snapshot': {},
}
DEFAULT_NOW = {'Topic': ['created_at'], 'Subscription': ['created_at'], 'Message': ['published_at'],
               'Delivery': ['published_at', 'attempt_at'], 'Snapshot': ['created_at']}
DEFAULTS = {'Topic': {'live': True}, 'Subscription': {'live': True, 'ordered_delivery': False, 'delivery_delay': 0},
            'Delivery': {'attempts': 0}, 'Message': {}, 'Snapshot': {}}
HOOKED = ('Topic', 'Subscription')


class Col:
    __slots__ = ('gofield', 'name', 'kind', 'nullable', 'gotype', 'idx')

    def __init__(self, gofield, name, kind, nullable, gotype, idx):
        self.gofield, self.name, self.kind, self.nullable, self.gotype, self.idx = gofield, name, kind, nullable, gotype, idx


class Schema:
    def __init__(self, prog):
        self.ent = {}
        self.table = {}
        self.by_table = {}
        for e in ENTITIES:
            pkg = '%s/%s' % (ENT, e.lower())
            tname = prog.consts['%s.Table' % pkg]
            d = prog.under('%s.%s' % (ENT, e))
            cols = []
            for i, f in enumerate(d['fields']):
                if f['name'] in ('config', 'Edges', 'selectValues'):
                    continue
                cn = prog.consts.get('%s.Field%s' % (pkg, f['name']))
                if cn is None:
                    raise Unsupported('no column constant for %s.%s' % (e, f['name']))
                t = f['t']
                nullable = t.startswith('*')
                bt = t.lstrip('*')
                kind = {UUID_T: 'uuid', TIME_T: 'time', 'string': 'str', 'bool': 'bool', 'int': 'int', 'int32': 'int',
                        IVL: 'interval', 'map[string]string': 'map', 'encoding/json.RawMessage': 'bytes',
                        '[]' + UUID_T: 'uuidlist'}.get(bt)
                if kind is None:
                    raise Unsupported('column type %s of %s.%s' % (t, e, f['name']))
                if e == 'Delivery' and cn == 'not_before_id':
                    nullable = True
                if kind == 'map' and e in ('Topic', 'Subscription', 'Snapshot'):
                    pass
                cols.append(Col(f['name'], cn, kind, nullable, t, i))
            self.ent[e] = cols
            self.table[e] = tname
            self.by_table[tname] = e

    def col(self, e, name):
        for c in self.ent[e]:
            if c.name == name:
                return c
        raise Unsupported('no column %s in %s' % (name, e))

    def gof(self, e, gofield):
        for c in self.ent[e]:
            if c.gofield == gofield:
                return c
        return None


class Row:
    __slots__ = ('e', 'exists', 'v', 'null', 'slot', 'created')

    def __init__(self, e, exists, v, null, slot, created=False):
        self.e, self.exists, self.v, self.null, self.slot, self.created = e, exists, v, null, slot, created

    def copy(self):
        return Row(self.e, self.exists, dict(self.v), dict(self.null), self.slot, self.created)

    def isnull(self, c):
        return self.null.get(c, False)


class DB:
    def __init__(self, schema):
        self.schema = schema
        self.t = {e: [] for e in ENTITIES}
        self.stmts = 0
        self.log = []         # statement log (kind, entity, tx)
        self.dialect = 'sqlite3'

    def snapshot(self):
        return {e: [r.copy() for r in rows] for e, rows in self.t.items()}

    def restore(self, snap):
        self.t = {e: [r.copy() for r in rows] for e, rows in snap.items()}


def db_of(ex):
    return ex.env['db']


# ---------------------------------------------------------------- symbolic pre-state
TMIN, TMAX = 10**17, 4 * 10**18


def sym_value(ex, kind, name):
    if kind == 'uuid':
        v = z3.Int(name)
        ex.assume(z3.And(v >= 1, v < 2**128))
        return v
    if kind == 'time':
        v = z3.Int(name)
        ex.assume(z3.And(v >= TMIN, v <= TMAX))
        return v
    if kind == 'str':
        return z3.String(name)
    if kind == 'bool':
        return z3.Bool(name)
    if kind == 'int':
        v = z3.Int(name)
        ex.assume(z3.And(v >= -2**31, v < 2**31))
        return v
    if kind == 'interval':
        v = z3.Int(name)
        ex.assume(z3.And(v >= -2**62, v < 2**62))
        return v
    if kind == 'map':
        return SymMap(z3.Array(name + '.has', z3.StringSort(), z3.BoolSort()), z3.Array(name + '.val', z3.StringSort(), z3.StringSort()))
    if kind == 'bytes':
        ln = z3.Int(name + '.len')
        ex.assume(z3.And(ln >= 0, ln < 2**31))
        return OpaqueBytes(z3.Int(name + '.id'), ln)
    if kind == 'uuidlist':
        return ()
    raise Unsupported(kind)


def sym_row(ex, db, e, slot, exists=None, prefix=''):
    v, null = {}, {}
    tag = '%s%s%d' % (prefix, e[:3].lower(), slot)
    for c in db.schema.ent[e]:
        v[c.name] = sym_value(ex, c.kind, '%s.%s' % (tag, c.name))
        if c.nullable:
            null[c.name] = z3.Bool('%s.%s.null' % (tag, c.name))
    r = Row(e, z3.Bool(tag + '.exists') if exists is None else exists, v, null, slot)
    db.t[e].append(r)
    ex.known_uuids.append(v['id'])
    return r


def sym_db(ex, prog, sizes, exists=None, fk=True, prefix=''):
    """arbitrary table state with the representation invariant assumed"""
    schema = ex.xp.schema
    db = DB(schema)
    for e in ENTITIES:
        for i in range(sizes.get(e, 0)):
            ee = exists.get(e) if isinstance(exists, dict) else exists
            sym_row(ex, db, e, i, exists=ee, prefix=prefix)
    assume_inv(ex, db)
    return db


def inv_formulas(ex, db, t=None):
    """the representation invariant as labelled formulas over the rows t (default: the current tables of db)"""
    t = db.t if t is None else t
    out = []
    rows = [r for e in ENTITIES for r in t.get(e, [])]
    ids = [r.v['id'] for r in rows]
    for i in range(len(rows)):
        for j in range(i + 1, len(rows)):
            if not (rows[i].exists is True and rows[j].exists is True):
                out.append(('ids-unique', Implies(And(rows[i].exists, rows[j].exists), Not(ex.eq(ids[i], ids[j])))))
    if len(ids) > 1 and all(r.exists is True for r in rows):
        out.append(('ids-unique', z3.Distinct(*ids)))

    def resolves(r, fkcol, target, nullable):
        alts = [And(x.exists, ex.eq(r.v[fkcol], x.v['id'])) for x in t.get(target, [])]
        cond = Or(*alts) if alts else False
        if nullable:
            cond = Or(r.isnull(fkcol), cond)
        out.append(('foreign-key-resolves:%s.%s' % (target, fkcol), Implies(r.exists, cond)))
    for e in ENTITIES:
        for r in t.get(e, []):
            for edge, (fkcol, target) in M2O[e].items():
                resolves(r, fkcol, target, db.schema.col(e, fkcol).nullable)
    for e in ('Topic', 'Subscription'):
        rs = t.get(e, [])
        for r in rs:
            # live is NULL or TRUE; live NULL <=> deleted_at NOT NULL
            out.append(('live-flag-matches-deleted_at:' + e, Implies(r.exists, And(Or(r.isnull('live'), r.v['live']), ex.eq(zbool(r.isnull('live')), Not(r.isnull('deleted_at')))))))
        for i in range(len(rs)):
            for j in range(i + 1, len(rs)):
                a, b = rs[i], rs[j]
                out.append(('one-live-row-per-name:' + e, Implies(And(a.exists, b.exists, Not(a.isnull('live')), Not(b.isnull('live'))), Not(ex.eq(a.v['name'], b.v['name'])))))
    rs = t.get('Snapshot', [])
    for i in range(len(rs)):
        for j in range(i + 1, len(rs)):
            out.append(('one-snapshot-per-name', Implies(And(rs[i].exists, rs[j].exists), Not(ex.eq(rs[i].v['name'], rs[j].v['name'])))))
    for r in t.get('Subscription', []):
        out.append(('subscription-durations-in-range', Implies(r.exists, And(r.v['ttl'] > 0, r.v['message_ttl'] > 0, r.v['delivery_delay'] >= 0, r.v['ttl'] < 2**55,
                                                                             r.v['message_ttl'] < 2**55, r.v['delivery_delay'] < 2**55))))
    for r in t.get('Delivery', []):
        out.append(('attempts-in-range', Implies(r.exists, And(r.v['attempts'] >= 0, r.v['attempts'] < 2**30))))
        # a delivery never is its own predecessor; predecessor on same subscription and not published later
        for x in t.get('Delivery', []):
            link = And(r.exists, Not(r.isnull('not_before_id')), x.exists, ex.eq(r.v['not_before_id'], x.v['id']))
            if x is r:
                out.append(('no-self-predecessor', Not(link)))
            else:
                out.append(('predecessor-on-same-subscription-and-not-later', Implies(link, And(ex.eq(x.v['subscription_id'], r.v['subscription_id']),
                                                                                               x.v['published_at'] <= r.v['published_at']))))
    return out


def assume_inv(ex, db):
    ids = [r.v['id'] for e in ENTITIES for r in db.t[e]]
    if len(ids) > 1:
        ex.assume(z3.Distinct(*ids))      # also for row slots that do not exist: harmless and cheaper than pairwise implications
    for lbl, f in inv_formulas(ex, db):
        if f is not True and lbl != 'ids-unique':
            ex.assume(zbool(f))


# ---------------------------------------------------------------- predicates & selectors
class ColRef:
    __slots__ = ('alias', 'col')

    def __init__(self, alias, col):
        self.alias, self.col = alias, col

    def __repr__(self):
        return '%s.%s' % (self.alias, self.col)


class P:
    """model predicate: ('cmp', col, op, val) ('in', col, vals, neg) ('null', col, neg) ('prefix', col, s)
       ('and', ps) ('or', ps) ('not', p) ('hasedge', edge, ps) ('colcmp', c1, op, c2) ('closure', fn)"""
    __slots__ = ('k', 'a')

    def __init__(self, k, *a):
        self.k, self.a = k, a

    def __repr__(self):
        return 'P(%s,%r)' % (self.k, self.a)


class Table:
    def __init__(self, name, alias=None):
        self.name, self.alias = name, alias or name


class Selector:
    def __init__(self, e, table):
        self.e = e
        self.root = table
        self.joins = []       # (kind, Table, left ColRef, right ColRef)
        self.wheres = []
        self.distinct = False
        self.extra_select = []  # (ColRef, alias)
        self.order = []
        self.pending_join = None


def colarg(ex, s, default_alias):
    """column argument: ColRef or plain column name"""
    if isinstance(s, ColRef):
        return s
    if isinstance(s, str):
        return ColRef(default_alias, s)
    raise Unsupported('column argument %r' % (s,))


CMPOPS = {'EQ': '==', 'NEQ': '!=', 'GT': '>', 'GTE': '>=', 'LT': '<', 'LTE': '<='}


@pat(r'^entgo\.io/ent/dialect/sql\.Field(EQ|NEQ|GT|GTE|LT|LTE)(\[|$)')
def sql_fieldcmp(ex, args, name):
    op = re.match(r'.*\.Field([A-Z]+)', name).group(1)
    return P('cmp', args[0], CMPOPS[op], args[1])


@pat(r'^entgo\.io/ent/dialect/sql\.Field(In|NotIn)(\[|$)')
def sql_fieldin(ex, args, name):
    neg = '.FieldNotIn' in name
    return P('in', args[0], list(args[1].items()) if args[1] is not None else [], neg)


@intr('entgo.io/ent/dialect/sql.FieldIsNull')
def sql_fieldisnull(ex, args, name):
    return P('null', args[0], False)


@intr('entgo.io/ent/dialect/sql.FieldNotNull')
def sql_fieldnotnull(ex, args, name):
    return P('null', args[0], True)


@intr('entgo.io/ent/dialect/sql.FieldHasPrefix')
def sql_fieldhasprefix(ex, args, name):
    return P('prefix', args[0], args[1])


@intr('entgo.io/ent/dialect/sql.FieldContains', 'entgo.io/ent/dialect/sql.FieldHasSuffix', 'entgo.io/ent/dialect/sql.FieldEqualFold',
      'entgo.io/ent/dialect/sql.FieldContainsFold')
def sql_fieldstrop(ex, args, name):
    return P('strop', name.split('.')[-1], args[0], args[1])


@pat(r'^entgo\.io/ent/dialect/sql\.(And|Or)Predicates\[')
def sql_andor_preds(ex, args, name):
    k = 'and' if '.AndPredicates[' in name else 'or'
    return P(k, list(args[0].items()))


@pat(r'^entgo\.io/ent/dialect/sql\.NotPredicates\[')
def sql_not_preds(ex, args, name):
    p = args[0]
    if isinstance(p, Slice):
        its = list(p.items())
        p = its[0] if len(its) == 1 else P('and', its)
    return P('not', p)


@intr('entgo.io/ent/dialect/sql.And')
def sql_and(ex, args, name):
    return P('and', list(args[0].items()))


@intr('entgo.io/ent/dialect/sql.Or')
def sql_or(ex, args, name):
    return P('or', list(args[0].items()))


@intr('entgo.io/ent/dialect/sql.Not')
def sql_not(ex, args, name):
    return P('not', args[0])


@pat(r'^entgo\.io/ent/dialect/sql\.(EQ|NEQ|GT|GTE|LT|LTE)$')
def sql_cmp(ex, args, name):
    op = name.split('.')[-1]
    v = args[1]
    if isinstance(v, Iface):
        v = v.v
    return P('cmp', args[0], CMPOPS[op], v)


@pat(r'^entgo\.io/ent/dialect/sql\.Columns(EQ|NEQ|GT|GTE|LT|LTE)$')
def sql_colcmp(ex, args, name):
    op = name.split('Columns')[-1]
    return P('colcmp', args[0], CMPOPS[op], args[1])


@intr('entgo.io/ent/dialect/sql.Like')
def sql_like(ex, args, name):
    return P('like', args[0], args[1])


@intr('entgo.io/ent/dialect/sql.IsNull')
def sql_isnull(ex, args, name):
    return P('null', args[0], False)


@intr('entgo.io/ent/dialect/sql.NotNull')
def sql_notnull(ex, args, name):
    return P('null', args[0], True)


@intr('entgo.io/ent/dialect/sql.In', 'entgo.io/ent/dialect/sql.NotIn')
def sql_in(ex, args, name):
    vs = [x.v if isinstance(x, Iface) else x for x in args[1].items()]
    return P('in', args[0], vs, name.endswith('NotIn'))


@intr('entgo.io/ent/dialect/sql.Table')
def sql_table(ex, args, name):
    return Table(args[0])


@intr('(*entgo.io/ent/dialect/sql.SelectTable).As')
def sql_table_as(ex, args, name):
    args[0].alias = args[1]
    return args[0]


@intr('(*entgo.io/ent/dialect/sql.SelectTable).C')
def sql_table_c(ex, args, name):
    return ColRef(args[0].alias, args[1])


@intr('(*entgo.io/ent/dialect/sql.Selector).C')
def sql_sel_c(ex, args, name):
    return ColRef(args[0].root.alias, args[1])


@intr('(*entgo.io/ent/dialect/sql.Selector).Distinct')
def sql_sel_distinct(ex, args, name):
    args[0].distinct = True
    return args[0]


@intr('(*entgo.io/ent/dialect/sql.Selector).Join', '(*entgo.io/ent/dialect/sql.Selector).LeftJoin')
def sql_sel_join(ex, args, name):
    s, t = args
    if isinstance(t, Iface):
        t = t.v
    if not isinstance(t, Table):
        raise Unsupported('join with %r' % (t,))
    s.pending_join = ('left' if name.endswith('LeftJoin') else 'inner', t)
    return s


@intr('(*entgo.io/ent/dialect/sql.Selector).On')
def sql_sel_on(ex, args, name):
    s, c1, c2 = args
    kind, t = s.pending_join
    s.pending_join = None
    c1, c2 = colarg(ex, c1, s.root.alias), colarg(ex, c2, s.root.alias)
    if c2.alias != t.alias:
        c1, c2 = c2, c1
    if c2.alias != t.alias:
        raise Unsupported('join ON does not mention the joined table')
    s.joins.append((kind, t, c1, c2))
    return s


@intr('(*entgo.io/ent/dialect/sql.Selector).Where')
def sql_sel_where(ex, args, name):
    args[0].wheres.append(args[1])
    return args[0]


@intr('(*entgo.io/ent/dialect/sql.Selector).AppendSelect')
def sql_sel_appendselect(ex, args, name):
    for a in args[1].items():
        args[0].extra_select.append(a)
    return args[0]


@intr('entgo.io/ent/dialect/sql.As')
def sql_as(ex, args, name):
    return ('as', colarg(ex, args[0], None), args[1])


@intr('entgo.io/ent/dialect/sql.WithLockTables', 'entgo.io/ent/dialect/sql.WithLockAction', 'entgo.io/ent/dialect/sql.OrderDesc', 'entgo.io/ent/dialect/sql.OrderAsc')
def sql_lockopt(ex, args, name):
    return ('opt', name.split('.')[-1], args)


class OrderSpec:
    def __init__(self, col, desc):
        self.col, self.desc = col, desc


@pat(r'^go\.6river\.tech/mmmbbb/ent\.(Asc|Desc)$')
def ent_ascdesc(ex, args, name):
    fs = list(args[0].items())
    return [OrderSpec(f, name.endswith('Desc')) for f in fs]


@pat(r'^go\.6river\.tech/mmmbbb/ent/(\w+)\.By([A-Z]\w*)$')
def ent_by(ex, args, name):
    m = re.match(r'^go\.6river\.tech/mmmbbb/ent/(\w+)\.By([A-Z]\w*)$', name)
    e = ex.xp.schema.by_pkg[m.group(1)]
    c = ex.xp.schema.gof(e, m.group(2))
    if c is None:
        raise Unsupported(name)
    desc = False
    for o in (args[0].items() if args and args[0] is not None else []):
        if isinstance(o, tuple) and o[1] == 'OrderDesc':
            desc = True
    return [OrderSpec(c.name, desc)]


@pat(r'^go\.6river\.tech/mmmbbb/ent/(\w+)\.Has([A-Z]\w*?)(With)?$')
def ent_hasedge(ex, args, name):
    m = re.match(r'^go\.6river\.tech/mmmbbb/ent/(\w+)\.Has([A-Z]\w*?)(With)?$', name)
    e = ex.xp.schema.by_pkg[m.group(1)]
    preds = list(args[0].items()) if m.group(3) and args and args[0] is not None else []
    return P('hasedge', e, m.group(2), preds)


# ---- 3-valued predicate evaluation: returns (istrue, isfalse)
def col_value(ex, ctx, ref, db):
    """ctx: alias -> Row or None (NULL row of a left join); returns (isnull, value, Col)"""
    r = ctx.get(ref.alias)
    if ref.alias not in ctx:
        raise Unsupported('unknown table alias %s' % ref.alias)
    e = ctx['#ent'][ref.alias]
    c = db.schema.col(e, ref.col)
    if r is None:
        return True, None, c
    return r.isnull(c.name), r.v[c.name], c


def cmp_vals(ex, op, a, b, kind):
    if op == '==':
        return ex.eq(a, b)
    if op == '!=':
        return Not(ex.eq(a, b))
    return ex.binop(op, a, b, 'int', 'bool')


def unwrap_val(v):
    if isinstance(v, Iface):
        v = v.v
    if isinstance(v, Ptr):
        v = v.get()
    return v


def eval_pred(ex, db, p, ctx, alias):
    k = p.k
    if k == 'cmp':
        n, v, c = col_value(ex, ctx, colarg(ex, p.a[0], alias), db)
        t = cmp_vals(ex, p.a[1], v, unwrap_val(p.a[2]), c.kind) if n is not True else False
        return And(Not(n), t), And(Not(n), Not(t))
    if k == 'colcmp':
        n1, v1, c1 = col_value(ex, ctx, colarg(ex, p.a[0], alias), db)
        n2, v2, c2 = col_value(ex, ctx, colarg(ex, p.a[2], alias), db)
        if n1 is True or n2 is True:
            return False, False
        t = cmp_vals(ex, p.a[1], v1, v2, c1.kind)
        nn = And(Not(n1), Not(n2))
        return And(nn, t), And(nn, Not(t))
    if k == 'in':
        n, v, c = col_value(ex, ctx, colarg(ex, p.a[0], alias), db)
        vals, neg = p.a[1], p.a[2]
        if n is True:
            return False, False
        # ent: FieldIn with an empty list = FALSE; FieldNotIn with an empty list = NOT FALSE = TRUE
        if not vals:
            return (True, False) if neg else (False, True)
        t = Or(*[ex.eq(v, unwrap_val(x)) for x in vals])
        if neg:
            t = Not(t)
        return And(Not(n), t), And(Not(n), Not(t))
    if k == 'null':
        n, v, c = col_value(ex, ctx, colarg(ex, p.a[0], alias), db)
        return (Not(n), n) if p.a[1] else (n, Not(n))
    if k == 'prefix':
        n, v, c = col_value(ex, ctx, colarg(ex, p.a[0], alias), db)
        if n is True:
            return False, False
        pre = p.a[1]
        t = simp(z3.PrefixOf(zstr(pre), zstr(v))) if (is_sym(pre) or is_sym(v)) else v.startswith(pre)
        return And(Not(n), t), And(Not(n), Not(t))
    if k == 'like':
        # SQL LIKE with an unescaped pattern: % = any sequence, _ = any one character (case-sensitive, as on PostgreSQL)
        n, v, c = col_value(ex, ctx, colarg(ex, p.a[0], alias), db)
        if n is True:
            return False, False
        pat_ = p.a[1]
        if is_sym(pat_):
            raise Unsupported('LIKE with a symbolic pattern')
        if not is_sym(v):
            rx = ''.join('.*' if ch == '%' else '.' if ch == '_' else re.escape(ch) for ch in pat_)
            t = re.fullmatch(rx, v, re.S) is not None
        else:
            parts = []
            for ch in pat_:
                parts.append(z3.Star(z3.AllChar(z3.ReSort(z3.StringSort()))) if ch == '%' else z3.AllChar(z3.ReSort(z3.StringSort())) if ch == '_' else z3.Re(ch))
            rx = parts[0] if len(parts) == 1 else z3.Concat(*parts) if parts else z3.Re('')
            t = simp(z3.InRe(zstr(v), rx))
        return And(Not(n), t), And(Not(n), Not(t))
    if k == 'and':
        rs = [eval_pred_any(ex, db, q, ctx, alias) for q in p.a[0]]
        return And(*[t for t, f in rs]), Or(*[f for t, f in rs])
    if k == 'or':
        rs = [eval_pred_any(ex, db, q, ctx, alias) for q in p.a[0]]
        return Or(*[t for t, f in rs]), And(*[f for t, f in rs])
    if k == 'not':
        t, f = eval_pred_any(ex, db, p.a[0], ctx, alias)
        return f, t
    if k == 'hasedge':
        e, edge, preds = p.a
        r = ctx[alias]
        if r is None:
            return False, True
        alts = []
        if edge in M2O[e]:
            fkcol, target = M2O[e][edge]
            for t in db.t[target]:
                c = And(t.exists, Not(r.isnull(fkcol)), ex.eq(r.v[fkcol], t.v['id']))
                alts.append((t, target, c))
        elif edge in O2M[e]:
            target, fkcol = O2M[e][edge]
            for t in db.t[target]:
                c = And(t.exists, Not(t.isnull(fkcol)), ex.eq(t.v[fkcol], r.v['id']))
                alts.append((t, target, c))
        else:
            raise Unsupported('edge %s.%s' % (e, edge))
        conds = []
        for t, target, c in alts:
            if c is False:
                continue
            talias = db.schema.table[target]
            sub = {'#ent': {talias: target}, talias: t}
            m = row_matches(ex, db, target, t, preds, talias, sub_ctx=sub)
            conds.append(And(c, m))
        tt = Or(*conds)
        return tt, Not(tt)
    raise Unsupported('predicate kind ' + k)


def eval_pred_any(ex, db, p, ctx, alias):
    if isinstance(p, P):
        return eval_pred(ex, db, p, ctx, alias)
    raise Unsupported('nested non-model predicate %r' % (p,))


def build_selector(ex, db, e, preds):
    tname = db.schema.table[e]
    sel = Selector(e, Table(tname))
    for p in preds:
        if isinstance(p, P):
            sel.wheres.append(p)
        elif isinstance(p, list):        # order specs passed through Where? no
            raise Unsupported('order spec in Where')
        elif p is None:
            continue
        else:
            ex.call_value(p, [sel])      # hand-written selector closure, executed
    return sel


def join_alternatives(ex, db, sel, root_row):
    """all (guard, ctx) combinations of join partners for root_row"""
    tname = sel.root.alias
    base = {'#ent': {tname: sel.e}, tname: root_row}
    alts = [(True, base)]
    for kind, t, left, right in sel.joins:
        te = db.schema.by_table.get(t.name)
        if te is None:
            raise Unsupported('join with unknown table ' + t.name)
        new = []
        for g, ctx in alts:
            ctx_ents = dict(ctx['#ent'])
            ctx_ents[t.alias] = te
            ln, lv, lc = col_value(ex, ctx, left, db)
            guards = []
            for r in db.t[te]:
                rn = r.isnull(right.col)
                on = And(r.exists, Not(ln), Not(rn), ex.eq(lv, r.v[right.col])) if ln is not True else False
                if on is False:
                    continue
                c2 = dict(ctx)
                c2['#ent'] = ctx_ents
                c2[t.alias] = r
                new.append((And(g, on), c2))
                guards.append(on)
            if kind == 'left':
                c2 = dict(ctx)
                c2['#ent'] = ctx_ents
                c2[t.alias] = None
                new.append((And(g, Not(Or(*guards))), c2))
        alts = new
    return alts


def row_matches(ex, db, e, row, preds, alias, sub_ctx=None):
    """condition under which `row` satisfies the model predicates (no joins)"""
    ctx = sub_ctx or {'#ent': {alias: e}, alias: row}
    ts = []
    for p in preds:
        if isinstance(p, P):
            t, f = eval_pred(ex, db, p, ctx, alias)
            ts.append(t)
        else:
            sel = Selector(e, Table(db.schema.table[e]))
            ex.call_value(p, [sel])
            if sel.joins:
                raise Unsupported('join inside nested predicate')
            for w in sel.wheres:
                t, f = eval_pred(ex, db, w, ctx, alias)
                ts.append(t)
    return And(*ts)


def select_candidates(ex, db, sel):
    """list of (cond, ctx) result candidates in slot order"""
    out = []
    alias = sel.root.alias
    for r in db.t[sel.e]:
        if r.exists is False:
            continue
        for g, ctx in join_alternatives(ex, db, sel, r):
            ts = [eval_pred(ex, db, w, ctx, alias)[0] for w in sel.wheres]
            c = And(r.exists, g, *ts)
            if c is False:
                continue
            out.append((c, ctx))
    return out


# ---------------------------------------------------------------- entity materialisation
def entity_from_row(ex, db, e, r, select=None):
    """select: the column names of a Query().Select(...) - the other fields of the returned entity stay zero (the id is always read)"""
    t = '%s.%s' % (ENT, e)
    s = ex.zero(t)
    for c in db.schema.ent[e]:
        if select and c.name != 'id' and c.name not in select:
            continue
        v = r.v[c.name]
        n = r.isnull(c.name)
        if c.gotype.startswith('*'):
            if n is True:
                fv = None
            else:
                fv = Ptr(Cell(v), 'v', nilc=None if n is False else n)
        else:
            if c.nullable and n is not False:
                fv = Ite(n, ex.zero(c.gotype), v) if n is not True else ex.zero(c.gotype)
            else:
                fv = v
            if c.kind == 'uuidlist':
                fv = ex.mkslice(list(v))
        s.f[c.idx] = fv
    return Ptr(Cell(s, tag=('entity', e, r)), 'v')


def ent_row_id(ex, entity):
    return ex.getf(entity, 'ID')


# ---------------------------------------------------------------- errors
def not_found(ex, e):
    s = ex.new_struct(ENT + '.NotFoundError', label=e.lower())
    return Iface('*' + ENT + '.NotFoundError', ex.new_ptr(s))


def not_singular(ex, e):
    s = ex.new_struct(ENT + '.NotSingularError', label=e.lower())
    return Iface('*' + ENT + '.NotSingularError', ex.new_ptr(s))


def constraint_error(ex, db, what):
    if db.dialect == 'sqlite3':
        T = 'github.com/mattn/go-sqlite3.Error'
        if T in ex.prog.types:
            inner = Iface(T, ex.new_struct(T, Code=19, ExtendedCode=2067))
        else:
            inner = mkerr('sqlite-constraint', what)
    else:
        T = 'github.com/jackc/pgx/v5/pgconn.PgError'
        if T in ex.prog.types:
            inner = Iface('*' + T, ex.new_ptr(ex.new_struct(T, Code='23505')))
        else:
            inner = mkerr('pg-constraint', what)
    s = ex.new_struct(ENT + '.ConstraintError', msg=what, wrap=inner)
    return Iface('*' + ENT + '.ConstraintError', ex.new_ptr(s))


@intr('(*go.6river.tech/mmmbbb/ent.ConstraintError).Unwrap', '(go.6river.tech/mmmbbb/ent.ConstraintError).Unwrap')
def constraint_unwrap(ex, args, name):
    return ex.getf(args[0], 'wrap')


# ---------------------------------------------------------------- statements / faults / transactions
class SQLTx(Opaque):
    def __init__(self, db, ex):
        Opaque.__init__(self, 'sqltx')
        self.db = db
        self.snap = db.snapshot()
        self.state = 'open'
        self.writes = 0
        ex.events.append(('begin', self))

    def go_invoke(self, ex, method, args):
        if method == 'Commit':
            err = statement(ex, self.db, 'COMMIT', None, self)
            if err is not None:
                self.db.restore(self.snap)
                if self.state == 'open':
                    self.state = 'failed-commit'
                ex.events.append(('commit-failed', self))
                return err
            if self.state != 'open':
                return sql_err_txdone(ex)
            self.state = 'committed'
            ex.events.append(('commit', self))
            return None
        if method == 'Rollback':
            if self.state != 'open':
                return sql_err_txdone(ex)
            self.db.restore(self.snap)
            self.state = 'rolledback'
            ex.events.append(('rollback', self))
            return None
        raise Unsupported('dialect.Tx.' + method)


def sql_err_txdone(ex):
    return ex.load(ex.global_ptr('database/sql.ErrTxDone', '*error'))


class Driver(Opaque):
    def __init__(self, db):
        Opaque.__init__(self, 'driver')
        self.db = db

    def go_invoke(self, ex, method, args):
        if method == 'Dialect':
            return self.db.dialect
        raise Unsupported('dialect.Driver.' + method)


def statement(ex, db, kind, e, tx):
    """every SQL statement passes here: numbering + fault hook. returns an error value or None"""
    db.stmts += 1
    db.log.append((kind, e, tx))
    ex.events.append(('stmt', db.stmts, kind, e, tx))
    if tx is not None and tx.state != 'open' and kind != 'COMMIT':
        return sql_err_txdone(ex)
    h = ex.env.get('fault')
    if h is not None:
        return h(ex, db, db.stmts, kind, e, tx)
    return None


def make_client(ex, db):
    """*ent.Client"""
    c = ex.zero(ENT + '.Client')
    cfg = ex.zero(ENT + '.config')
    ex.setf(cfg, 'driver', Iface('model.Driver', Driver(db)))
    ex.setf(c, 'config', cfg)
    for e in ENTITIES:
        ex.setf(c, e, Opaque('entclient', entity=e, tx=None, db=db))
    p = Ptr(Cell(c), 'v')
    ex.env['db'] = db
    return p


def begin_tx(ex, db, ctx=None):
    """*ent.Tx over a fresh model transaction"""
    sqltx = SQLTx(db, ex)
    drv = ex.new_struct(ENT + '.txDriver', drv=Iface('model.Driver', Driver(db)), tx=Iface('model.Tx', sqltx))
    cfg = ex.zero(ENT + '.config')
    ex.setf(cfg, 'driver', Iface('*' + ENT + '.txDriver', ex.new_ptr(drv)))
    tx = ex.zero(ENT + '.Tx')
    ex.setf(tx, 'config', cfg)
    ex.setf(tx, 'ctx', ctx)
    for e in ENTITIES:
        ex.setf(tx, e, Opaque('entclient', entity=e, tx=sqltx, db=db))
    p = Ptr(Cell(tx, tag=('tx', sqltx)), 'v')
    ex.env['db'] = db
    ex.env.setdefault('txs', []).append((p, sqltx))
    return p


@intr('(*go.6river.tech/mmmbbb/ent.Client).BeginTx', '(*go.6river.tech/mmmbbb/ent.Client).Tx')
def client_begintx(ex, args, name):
    db = db_of(ex)
    err = statement(ex, db, 'BEGIN', None, None)
    if err is not None:
        return (None, mkerr('fmt.Errorf', 'ent: starting a transaction', err))
    return (begin_tx(ex, db, args[1] if len(args) > 1 else None), None)


@intr('(*go.6river.tech/mmmbbb/ent.Tx).Client')
def tx_client(ex, args, name):
    raise Unsupported('Tx.Client')


@intr('(entgo.io/ent.Op).Is')
def op_is(ex, args, name):
    return (args[0] & args[1]) != 0


# ---------------------------------------------------------------- builders
class Builder(Opaque):
    def __init__(self, kind, e, client, **kw):
        Opaque.__init__(self, 'builder:' + kind, **kw)
        self.bkind = kind
        self.e = e
        self.client = client
        self.db = client.db
        self.tx = client.tx
        self.preds = []
        self.order = []
        self.limit = None
        self.with_edges = []     # (edge, opts closures)
        self.sets = {}           # col -> value
        self.nulls = set()       # cleared columns
        self.adds = {}           # col -> delta
        self.select = None
        self.one = None          # for UpdateOne: id
        self.bulk = None
        self.lock = False
        self.unique = None

    def go_fieldaddr(self, ex, i, ins=None):
        # XSelect embeds *XQuery: promoted methods reach the same builder
        return Ptr(Cell(self), 'v')


BUILDER_RX = re.compile(r'^\(\*go\.6river\.tech/mmmbbb/ent\.(Delivery|Message|Snapshot|Subscription|Topic)'
                        r'(Client|Query|Select|UpdateOne|Update|CreateBulk|Create|DeleteOne|Delete|Mutation)\)\.(\w+)$')


def setter_col(ex, b, fname):
    """map a SetX / ClearX / AddX suffix to a column"""
    sch = b.db.schema
    c = sch.gof(b.e, fname)
    if c is not None:
        return c, False
    if fname in M2O[b.e]:
        return sch.col(b.e, M2O[b.e][fname][0]), True
    raise Unsupported('setter %s on %s' % (fname, b.e))


def go_to_col(ex, c, v):
    """convert a Go value (as passed to a setter) to column representation: returns (isnull, value)"""
    if c.kind == 'uuidlist':
        return False, tuple(v.items()) if isinstance(v, Slice) else ()
    if c.kind == 'map':
        if v is None:
            return False, SymMap(z3.K(z3.StringSort(), z3.BoolVal(False)), z3.K(z3.StringSort(), z3.StringVal('')), nil=True)
        if isinstance(v, MapObj):
            has = z3.K(z3.StringSort(), z3.BoolVal(False))
            val = z3.K(z3.StringSort(), z3.StringVal(''))
            for k, x in v.ents:
                has = z3.Store(has, zstr(k), z3.BoolVal(True))
                val = z3.Store(val, zstr(k), zstr(x))
            return False, SymMap(has, val)
        return False, v
    if c.kind == 'bytes':
        if isinstance(v, Slice):
            its = v.items()
            return False, OpaqueBytes(hash(tuple(map(str, its))) % 10**9, len(its))
        return False, v
    if isinstance(v, Ptr) and c.gotype.startswith('*'):
        # setter for a pointer-typed Go field (e.g. *sqltypes.Interval): store pointee
        if v.nilc is not None:
            return v.nilc, v.get()
        return False, v.get()
    if v is None and c.gotype.startswith('*'):
        return True, ex_zero_kind(c.kind)
    return False, v


def ex_zero_kind(kind):
    return {'uuid': 0, 'time': ZERO_TIME_NS, 'str': '', 'bool': False, 'int': 0, 'interval': 0}.get(kind, 0)


@pat(BUILDER_RX.pattern)
def ent_builder_call(ex, args, name):
    m = BUILDER_RX.match(name)
    e, bk, meth = m.groups()
    recv = args[0]
    a = args[1:]
    if bk == 'Client':
        return client_call(ex, e, recv, meth, a)
    if not isinstance(recv, Builder):
        raise Unsupported('%s on %r' % (name, recv))
    b = recv
    if bk == 'Mutation':
        return mutation_call(ex, b, meth, a)
    # ---- common
    if meth == 'Where':
        b.preds += list(a[0].items()) if a[0] is not None else []
        return b
    if meth in ('Order',):
        for o in (a[0].items() if a[0] is not None else []):
            b.order += o if isinstance(o, list) else [o]
        return b
    if meth == 'Limit':
        b.limit = a[0]
        return b
    if meth == 'Unique':
        return b
    if meth in ('ForUpdate', 'ForShare'):
        b.lock = True
        b.lock_opts = [o for o in (a[0].items() if a and a[0] is not None else [])]
        return b
    if meth.startswith('With') and bk == 'Query':
        edge = meth[4:]
        opts = list(a[0].items()) if a and a[0] is not None else []
        b.with_edges.append((edge, opts))
        return b
    if meth == 'Select' and bk == 'Query':
        b.select = list(a[0].items())
        return b
    if meth == 'Mutation':
        return b
    if meth in ('Fields', 'ClearedFields', 'AddedFields') and bk in ('Update', 'UpdateOne', 'Create'):
        return mutation_call(ex, b, meth, a)
    if meth.startswith('SetNillable'):
        p = a[0]
        if p is None:
            return b
        c, edge = setter_col(ex, b, meth[len('SetNillable'):])
        if isinstance(p, Ptr) and p.nilc is not None:
            if ex.branch(p.nilc):
                return b
        b.sets[c.name] = (False, p.get())
        b.nulls.discard(c.name)
        return b
    if meth.startswith('Set'):
        c, edge = setter_col(ex, b, meth[3:])
        v = a[0]
        if edge:
            if v is None:
                raise GoPanic('nil entity passed to %s' % meth)
            ex.deref_check(v, meth)
            v = ex.getf(v, 'ID')
            b.sets[c.name] = (False, v)
        else:
            b.sets[c.name] = go_to_col(ex, c, v)
        b.nulls.discard(c.name)
        return b
    if meth.startswith('Clear'):
        c, edge = setter_col(ex, b, meth[5:])
        b.nulls.add(c.name)
        b.sets.pop(c.name, None)
        return b
    if meth.startswith('Add') and bk in ('Update', 'UpdateOne'):
        c, edge = setter_col(ex, b, meth[3:])
        b.adds[c.name] = a[0]
        return b
    # ---- terminals
    if bk in ('Query', 'Select'):
        return query_terminal(ex, b, meth, a)
    if bk in ('Update', 'UpdateOne'):
        return update_terminal(ex, b, meth, a)
    if bk == 'Create':
        return create_terminal(ex, b, meth, a)
    if bk == 'CreateBulk':
        return createbulk_terminal(ex, b, meth, a)
    if bk in ('Delete', 'DeleteOne'):
        return delete_terminal(ex, b, meth, a)
    raise Unsupported(name)


def client_call(ex, e, cl, meth, a):
    if not isinstance(cl, Opaque):
        raise Unsupported('ent client receiver %r' % (cl,))
    if meth == 'Query':
        return Builder('Query', e, cl)
    if meth == 'Update':
        return Builder('Update', e, cl)
    if meth == 'UpdateOne':
        b = Builder('UpdateOne', e, cl)
        ex.deref_check(a[0], 'UpdateOne')
        b.one = ex.getf(a[0], 'ID')
        return b
    if meth == 'UpdateOneID':
        b = Builder('UpdateOne', e, cl)
        b.one = a[0]
        return b
    if meth == 'Create':
        return Builder('Create', e, cl)
    if meth == 'CreateBulk':
        b = Builder('CreateBulk', e, cl)
        b.bulk = list(a[0].items()) if a[0] is not None else []
        return b
    if meth == 'Delete':
        return Builder('Delete', e, cl)
    if meth in ('DeleteOne', 'DeleteOneID'):
        b = Builder('DeleteOne', e, cl)
        b.one = ex.getf(a[0], 'ID') if meth == 'DeleteOne' else a[0]
        return b
    if meth == 'Get':
        b = Builder('Query', e, cl)
        b.preds.append(P('cmp', 'id', '==', a[1]))
        return query_terminal(ex, b, 'Only', [a[0]])
    if meth.startswith('Query') and len(meth) > 5:
        return query_edge(ex, cl, e, meth[5:], a[0])
    raise Unsupported('%sClient.%s' % (e, meth))


def query_edge(ex, cl, e, edge, entity):
    ex.deref_check(entity, 'Query' + edge)
    if edge in O2M[e]:
        target, fkcol = O2M[e][edge]
        b = Builder('Query', target, Opaque('entclient', entity=target, tx=cl.tx, db=cl.db))
        b.preds.append(P('cmp', fkcol, '==', ex.getf(entity, 'ID')))
        return b
    if edge in M2O[e]:
        fkcol, target = M2O[e][edge]
        c = cl.db.schema.col(e, fkcol)
        b = Builder('Query', target, Opaque('entclient', entity=target, tx=cl.tx, db=cl.db))
        b.preds.append(P('cmp', 'id', '==', unwrap_val(ex.getf(entity, c.gofield))))
        return b
    raise Unsupported('Query%s on %s' % (edge, e))


@pat(r'^\(\*go\.6river\.tech/mmmbbb/ent\.(Delivery|Message|Snapshot|Subscription|Topic)\)\.(Query\w+|Update|Unwrap)$')
def entity_method(ex, args, name):
    m = re.match(r'^\(\*go\.6river\.tech/mmmbbb/ent\.(\w+)\)\.(\w+)$', name)
    e, meth = m.groups()
    db = db_of(ex)
    ent = args[0]
    tx = current_tx_for(ex, ent)
    cl = Opaque('entclient', entity=e, tx=tx, db=db)
    if meth.startswith('Query'):
        return query_edge(ex, cl, e, meth[5:], ent)
    if meth == 'Update':
        return client_call(ex, e, cl, 'UpdateOne', [ent])
    raise Unsupported(name)


def current_tx_for(ex, entity):
    base = entity.base if isinstance(entity, Ptr) else None
    tx = getattr(base, 'tag', None)
    txs = ex.env.get('txs') or []
    # entities are loaded through the transaction that is open (mmmbbb never mixes)
    for p, sqltx in reversed(txs):
        if sqltx.state == 'open':
            return sqltx
    return None


def fail_or(ex, b, kind):
    return statement(ex, b.db, kind, b.e, b.tx)


def run_query(ex, b):
    """returns list of ctx for matching result rows (forks over row matches, order and limit)"""
    db = b.db
    sel = build_selector(ex, db, b.e, b.preds)
    cands = select_candidates(ex, db, sel)
    chosen = []
    for c, ctx in cands:
        if ex.branch(c):
            chosen.append(ctx)
    alias = sel.root.alias
    order = list(b.order) + list(sel.order)
    if order:
        def key_less(x, y):
            for o in order:
                col = o.col if isinstance(o.col, str) else o.col.col
                a, bb = x[alias].v[col], y[alias].v[col]
                lt = ex.binop('<', a, bb, 'int', 'bool') if not o.desc else ex.binop('>', a, bb, 'int', 'bool')
                if ex.branch(lt):
                    return True
                if len(order) > 1 and ex.branch(ex.eq(a, bb)):
                    continue
                return False
            return False
        for i in range(1, len(chosen)):
            j = i
            while j > 0 and key_less(chosen[j], chosen[j - 1]):
                chosen[j], chosen[j - 1] = chosen[j - 1], chosen[j]
                j -= 1
    elif b.limit is not None and len(chosen) > 1 and ex.xp.unordered_limit_any:
        # LIMIT without ORDER BY: any subset -- sort by fresh keys so every order is explored
        keys = {id(c): ex.fresh('anyorder') for c in chosen}
        for i in range(1, len(chosen)):
            j = i
            while j > 0 and ex.branch(keys[id(chosen[j])] < keys[id(chosen[j - 1])]):
                chosen[j], chosen[j - 1] = chosen[j - 1], chosen[j]
                j -= 1
    if b.limit is not None:
        lim = b.limit
        out = []
        for k, c in enumerate(chosen):
            if is_sym(lim):
                if not ex.branch(lim > k):
                    break
            elif k >= lim:
                break
            out.append(c)
        chosen = out
    return sel, chosen


def load_edges(ex, b, ents_rows):
    db = b.db
    for edge, opts in b.with_edges:
        esel = None
        if edge in M2O[b.e]:
            fkcol, target = M2O[b.e][edge]
            for entp, r in ents_rows:
                found = None
                if r.isnull(fkcol) is not True:
                    pairs = []
                    for t in db.t[target]:
                        c = And(t.exists, Not(r.isnull(fkcol)), ex.eq(r.v[fkcol], t.v['id']))
                        if opts:
                            c = And(c, row_matches(ex, db, target, t, edge_opt_preds(ex, db, target, opts), db.schema.table[target]))
                            esel = edge_opt_preds.last_select
                        if c is False:
                            continue
                        pairs.append((c, t))
                    if ex.xp.merge_single_row:
                        if pairs and ex.branch(Or(*[c for c, _ in pairs])):
                            found = merge_rows(ex, db, target, pairs)
                    else:
                        for c, t in pairs:
                            if ex.branch(c):
                                found = t
                                break
                edges = ex.getf(entp, 'Edges')
                es = entp.get().f[ex.struct_field_index(entp.get().t, 'Edges')]
                es.f[ex.struct_field_index(es.t, edge)] = entity_from_row(ex, db, target, found, esel) if found is not None else None
        elif edge in O2M[b.e]:
            target, fkcol = O2M[b.e][edge]
            preds = edge_opt_preds(ex, db, target, opts)
            esel = edge_opt_preds.last_select if opts else None
            if esel:
                esel = list(esel) + [fkcol]        # ent adds the foreign key it needs to attach the children
            for entp, r in ents_rows:
                kids = []
                for t in db.t[target]:
                    c = And(t.exists, Not(t.isnull(fkcol)), ex.eq(t.v[fkcol], r.v['id']),
                            row_matches(ex, db, target, t, preds, db.schema.table[target]))
                    if ex.branch(c):
                        kids.append(entity_from_row(ex, db, target, t, esel))
                es = entp.get().f[ex.struct_field_index(entp.get().t, 'Edges')]
                es.f[ex.struct_field_index(es.t, edge)] = ex.mkslice(kids)
        else:
            raise Unsupported('With%s on %s' % (edge, b.e))


def edge_opt_preds(ex, db, target, opts):
    edge_opt_preds.last_select = None
    """With<Edge>(func(q *XQuery){ q.Where(...) }) options: run them on a scratch builder and take its predicates"""
    if not opts:
        return []
    qb = Builder('Query', target, Opaque('entclient', entity=target, tx=None, db=db))
    for o in opts:
        ex.call_value(o, [qb])
    if qb.order or qb.limit is not None or qb.with_edges:
        raise Unsupported('edge option other than Where / Select')
    edge_opt_preds.last_select = qb.select       # column projection of the edge query (unselected fields of the loaded entities stay zero)
    return qb.preds


def merge_rows(ex, db, e, pairs):
    """virtual Row equal to the first row whose condition holds (pairs: [(cond,row)])"""
    if len(pairs) == 1:
        return pairs[0][1]
    v, null = {}, {}
    last = pairs[-1][1]
    for c in db.schema.ent[e]:
        val = last.v[c.name]
        nl = last.isnull(c.name)
        for cond, r in reversed(pairs[:-1]):
            if c.kind == 'uuidlist':
                if len(r.v[c.name]) != len(val):
                    raise Unsupported('merge of id lists of different length')
            val = Ite(cond, r.v[c.name], val)
            nl = Ite(cond, r.isnull(c.name), nl)
        v[c.name] = val
        if c.nullable:
            null[c.name] = nl
    return Row(e, True, v, null, -1)


def pick_one(ex, db, b, sel, cands, only):
    """First/Only without materialising which row it is: returns (row|None, err)"""
    e = b.e
    alias = sel.root.alias
    conds = [c for c, _ in cands]
    if not cands or not ex.branch(Or(*conds)):
        return None, not_found(ex, e)
    if only and len(cands) > 1:
        two = Or(*[And(conds[i], conds[j]) for i in range(len(conds)) for j in range(i + 1, len(conds))])
        if ex.branch(two):
            return None, not_singular(ex, e)
    order = list(b.order) + list(sel.order)
    rows = [ctx[alias] for _, ctx in cands]
    if order and len(cands) > 1 and not only:
        if len(order) != 1:
            raise Unsupported('First with multi-column order')
        o = order[0]
        col = o.col if isinstance(o.col, str) else o.col.col
        best = []
        for i, (ci, ri) in enumerate(zip(conds, rows)):
            better = []
            for j, (cj, rj) in enumerate(zip(conds, rows)):
                if i == j:
                    continue
                a, bb = ri.v[col], rj.v[col]
                strictly = ex.binop('>', bb, a, 'int', 'bool') if o.desc else ex.binop('<', bb, a, 'int', 'bool')
                tie = And(ex.eq(a, bb), j < i)
                better.append(And(cj, Or(strictly, tie)))
            best.append((And(ci, Not(Or(*better))), ri))
        return merge_rows(ex, db, e, best), None
    return merge_rows(ex, db, e, list(zip(conds, rows))), None


def query_terminal(ex, b, meth, a):
    db = b.db
    e = b.e
    alias = db.schema.table[e]
    if meth == 'Exist':
        err = fail_or(ex, b, 'SELECT')
        if err is not None:
            return (False, err)
        sel = build_selector(ex, db, e, b.preds)
        cands = select_candidates(ex, db, sel)
        return (Or(*[c for c, _ in cands]), None)
    if meth == 'Count':
        err = fail_or(ex, b, 'SELECT')
        if err is not None:
            return (0, err)
        sel = build_selector(ex, db, e, b.preds)
        cands = select_candidates(ex, db, sel)
        n = 0
        for c, _ in cands:
            n = n + Ite(c, 1, 0)
        return (simp(n) if is_sym(n) else n, None)
    if meth in ('All', 'First', 'Only', 'OnlyID', 'IDs', 'FirstID', 'Scan'):
        err = fail_or(ex, b, 'SELECT')
        if err is not None:
            if meth == 'Scan':
                return err
            zero = {'All': Slice(None, 0, 0, 0), 'IDs': Slice(None, 0, 0, 0), 'First': None, 'Only': None, 'OnlyID': 0, 'FirstID': 0}[meth]
            return (zero, err)
        vh = ex.env.get('select_view')
        if vh is not None:
            view = vh(ex, b)
            if view is not None:
                saved = db.t
                db.t = view
                ex.env['select_view'] = None
                try:
                    return query_terminal(ex, b, meth, a)
                finally:
                    db.t = saved
                    ex.env['select_view'] = vh
        if meth in ('First', 'FirstID', 'Only', 'OnlyID') and ex.xp.merge_single_row:
            sel = build_selector(ex, db, e, b.preds)
            if not sel.distinct:
                cands = select_candidates(ex, db, sel)
                row, perr = pick_one(ex, db, b, sel, cands, meth.startswith('Only'))
                if perr is not None:
                    return ((None if meth in ('First', 'Only') else 0), perr)
                if meth in ('FirstID', 'OnlyID'):
                    return (row.v['id'], None)
                ep = entity_from_row(ex, db, e, row, b.select)
                load_edges(ex, b, [(ep, row)])
                return (ep, None)
        if meth in ('First', 'FirstID'):
            b.limit = 1
        if meth in ('Only', 'OnlyID'):
            b.limit = 2
        sel, chosen = run_query(ex, b)
        rows = [c[alias] for c in chosen]
        if meth == 'IDs':
            ids = [r.v['id'] for r in rows]
            if sel.distinct:
                ids = dedupe(ex, ids)
            return (ex.mkslice(ids), None)
        if meth == 'Scan':
            return scan_into(ex, b, sel, chosen, a[1])
        if meth in ('First', 'FirstID', 'Only', 'OnlyID'):
            if not rows:
                return ((None if meth in ('First', 'Only') else 0), not_found(ex, e))
            if meth in ('Only', 'OnlyID') and len(rows) > 1:
                return ((None if meth == 'Only' else 0), not_singular(ex, e))
            if meth in ('FirstID', 'OnlyID'):
                return (rows[0].v['id'], None)
            ep = entity_from_row(ex, db, e, rows[0], b.select)
            load_edges(ex, b, [(ep, rows[0])])
            return (ep, None)
        ents = [(entity_from_row(ex, db, e, r, b.select), r) for r in rows]
        load_edges(ex, b, ents)
        return (ex.mkslice([p for p, _ in ents]), None)
    raise Unsupported('%sQuery.%s' % (e, meth))


def dedupe(ex, vals):
    out = []
    for v in vals:
        dup = False
        for o in out:
            if ex.branch(ex.eq(v, o)):
                dup = True
                break
        if not dup:
            out.append(v)
    return out


def scan_into(ex, b, sel, chosen, target):
    db = b.db
    alias = sel.root.alias
    tgt = target.v if isinstance(target, Iface) else target
    tt = target.t if isinstance(target, Iface) else None
    if tt is None:
        raise Unsupported('Scan target type unknown')
    st = ex.prog.types[tt]['elem']           # slice type
    et = ex.prog.under(st)['elem']
    cols = list(b.select or [])
    if et == UUID_T or ex.prog.under(et)['k'] == 'basic':
        if len(cols) != 1:
            raise Unsupported('scalar Scan needs one column')
        vals = [c[alias].v[cols[0]] for c in chosen]
        if sel.distinct:
            vals = dedupe(ex, vals)
        tgt.set(ex.mkslice(vals))
        return None
    ed = ex.prog.under(et)
    if ed['k'] != 'struct':
        raise Unsupported('Scan into ' + et)
    # column name -> value source
    items = []
    for c in chosen:
        s = ex.zero(et)
        avail = {}
        for cn in cols:
            avail[cn] = (c[alias].isnull(cn), c[alias].v[cn])
        for x in sel.extra_select:
            if isinstance(x, tuple) and x[0] == 'as':
                ref = x[1]
                n, v, col = col_value(ex, c, ref, db)
                avail[x[2]] = (n, v)
            else:
                raise Unsupported('extra select %r' % (x,))
        for i, f in enumerate(ed['fields']):
            m = re.search(r'sql:"([^"]+)"', f['tag'])
            key = m.group(1) if m else f['name'].lower()
            if key not in avail:
                continue     # column not selected: field stays zero (ent's ScanSlice errors on unknown *columns*, not fields)
            n, v = avail[key]
            if n is True:
                raise Unsupported('NULL scanned into struct field')
            if n is not False and ex.branch(n):
                return mkerr('sql-scan', 'converting NULL')
            s.f[i] = v
        for key in avail:
            if not any((re.search(r'sql:"([^"]+)"', f['tag']) or [None, None])[1] == key or f['name'].lower() == key for f in ed['fields']):
                return mkerr('sql-scan', 'missing struct field for column ' + key)
        items.append(s)
    old = tgt.get()
    base = old.items() if isinstance(old, Slice) else []
    tgt.set(ex.mkslice(list(base) + items))
    return None


# ---- mutation model (for schema hooks)
def mutation_call(ex, b, meth, a):
    if meth == 'Fields':
        return ex.mkslice(sorted(b.sets.keys())) if b.sets else Slice(None, 0, 0, 0)
    if meth == 'ClearedFields':
        return ex.mkslice(sorted(b.nulls)) if b.nulls else Slice(None, 0, 0, 0)
    if meth == 'AddedFields':
        return ex.mkslice(sorted(b.adds.keys())) if b.adds else Slice(None, 0, 0, 0)
    raise Unsupported('Mutation.' + meth)


class Mutation(Opaque):
    def __init__(self, b, op):
        Opaque.__init__(self, 'mutation')
        self.b = b
        self.op = op

    def go_invoke(self, ex, method, args):
        b = self.b
        if method == 'Op':
            return self.op
        if method == 'Type':
            return b.e
        if method == 'Field':
            name = args[0]
            if name in b.sets:
                n, v = b.sets[name]
                c = b.db.schema.col(b.e, name)
                if n is True:
                    return (None, True)
                return (Iface(c.gotype.lstrip('*'), v), True)
            if self.op == 1:
                d = DEFAULTS[b.e]
                if name in d:
                    c = b.db.schema.col(b.e, name)
                    return (Iface(c.gotype.lstrip('*'), d[name]), True)
            return (None, False)
        if method == 'FieldCleared':
            return args[0] in b.nulls
        raise Unsupported('Mutation.' + method)


class NextMutator(Opaque):
    def __init__(self):
        Opaque.__init__(self, 'next-mutator')
        self.called = False

    def go_invoke(self, ex, method, args):
        if method == 'Mutate':
            self.called = True
            return (None, None)
        raise Unsupported('Mutator.' + method)


def run_hooks(ex, b, op):
    """returns error or None"""
    if b.e not in HOOKED:
        return None
    fn = 'go.6river.tech/mmmbbb/ent/schema.checkLiveOrDeleted'
    if fn not in ex.prog.funcs:
        raise Unsupported('schema hook not exported')
    nxt = NextMutator()
    res = ex.call_named(fn, [None, Iface('model.Mutator', nxt), Iface('model.Mutation', Mutation(b, op))])
    v, err = res
    if err is not None:
        return err
    if not nxt.called:
        raise Unsupported('hook did not call next and returned no error')
    return None


def apply_sets(ex, b, r, cond):
    """apply builder's set/clear/add to row r under condition cond"""
    for cn, (n, v) in b.sets.items():
        c = b.db.schema.col(b.e, cn)
        r.v[cn] = Ite(cond, v, r.v[cn])
        if c.nullable:
            r.null[cn] = Ite(cond, n, r.null.get(cn, False))
    for cn in b.nulls:
        r.null[cn] = Ite(cond, True, r.null.get(cn, False))
    for cn, d in b.adds.items():
        r.v[cn] = Ite(cond, ex.binop('+', r.v[cn], d, 'int', 'int'), r.v[cn])


def unique_violation(ex, db, e, newvals, newnull, skip_row=None):
    """condition under which a row with these values violates a unique index"""
    conds = []
    if e in ('Topic', 'Subscription'):
        for r in db.t[e]:
            if r is skip_row:
                continue
            conds.append(And(r.exists, Not(r.null['live']), Not(newnull.get('live', False)),
                             ex.eq(r.v['live'], newvals['live']), ex.eq(r.v['name'], newvals['name'])))
    if e == 'Snapshot':
        for r in db.t[e]:
            if r is skip_row:
                continue
            conds.append(And(r.exists, ex.eq(r.v['name'], newvals['name'])))
    return Or(*conds)


def update_terminal(ex, b, meth, a):
    db = b.db
    e = b.e
    if meth not in ('Save', 'Exec', 'SaveX', 'ExecX'):
        raise Unsupported('%sUpdate.%s' % (e, meth))
    one = b.bkind == 'UpdateOne'

    def ret(val, err):
        if meth == 'Exec':
            return err
        return (val, err)
    herr = run_hooks(ex, b, 4 if one else 2)
    if herr is not None:
        return ret(None if one else 0, herr)
    err = fail_or(ex, b, 'UPDATE')
    if err is not None:
        return ret(None if one else 0, err)
    preds = list(b.preds)
    if one:
        preds.append(P('cmp', 'id', '==', b.one))
    sel = build_selector(ex, db, e, preds)
    if sel.joins:
        raise Unsupported('UPDATE with join')
    alias = sel.root.alias
    n = 0
    conds = []
    for r in db.t[e]:
        ctx = {'#ent': {alias: e}, alias: r}
        c = And(r.exists, *[eval_pred(ex, db, w, ctx, alias)[0] for w in sel.wheres])
        conds.append((r, c))
    if one:
        found = Or(*[c for _, c in conds])
        if not ex.branch(found):
            return ret(None, not_found(ex, e))
    # unique index check for updates that touch name/live (only live is ever updated)
    for r, c in conds:
        if c is False:
            continue
        apply_sets(ex, b, r, c)
        n = n + Ite(c, 1, 0)
    if one:
        if meth == 'Exec':
            return None
        for r, c in conds:
            if c is False:
                continue
            if ex.branch(c):
                return (entity_from_row(ex, db, e, r), None)
        raise Infeasible()
    return ret(simp(n) if is_sym(n) else n, None)


def new_row_from_builder(ex, b):
    db = b.db
    e = b.e
    v, null = {}, {}
    for c in db.schema.ent[e]:
        if c.name in b.sets:
            n, val = b.sets[c.name]
            v[c.name] = val
            if c.nullable:
                null[c.name] = n
            continue
        if c.name == 'id':
            v['id'] = ex.fresh_uuid('newid')
            continue
        if c.name in DEFAULT_NOW[e]:
            v[c.name] = time_now(ex, [], 'time.Now')
            if c.nullable:
                null[c.name] = False
            continue
        if c.name in DEFAULTS[e]:
            v[c.name] = DEFAULTS[e][c.name]
            if c.nullable:
                null[c.name] = False
            continue
        if c.nullable or c.kind in ('map', 'uuidlist'):
            v[c.name] = ex_zero_kind(c.kind) if c.kind not in ('map', 'uuidlist', 'bytes') else (
                SymMap(z3.K(z3.StringSort(), z3.BoolVal(False)), z3.K(z3.StringSort(), z3.StringVal('')), nil=True) if c.kind == 'map' else ())
            if c.nullable:
                null[c.name] = True
            continue
        return None, mkerr('ent-validation', 'ent: missing required field "%s.%s"' % (e, c.name))
    return Row(e, True, v, null, len(db.t[e]), created=True), None


def create_terminal(ex, b, meth, a):
    if meth not in ('Save', 'Exec'):
        raise Unsupported('%sCreate.%s' % (b.e, meth))
    db = b.db

    def ret(val, err):
        return err if meth == 'Exec' else (val, err)
    herr = run_hooks(ex, b, 1)
    if herr is not None:
        return ret(None, herr)
    row, verr = new_row_from_builder(ex, b)
    if verr is not None:
        return ret(None, verr)
    # ent validators: NotEmpty on name
    if 'name' in row.v and b.e in ('Topic', 'Subscription', 'Snapshot'):
        if ex.branch(ex.eq(row.v['name'], '')):
            return ret(None, mkerr('ent-validation', 'validator failed for field name'))
    err = fail_or(ex, b, 'INSERT')
    if err is not None:
        return ret(None, err)
    uv = unique_violation(ex, db, b.e, row.v, row.null)
    if ex.branch(uv):
        return ret(None, constraint_error(ex, db, 'UNIQUE constraint failed'))
    h = ex.env.get('racing_insert')
    if h is not None:
        rerr = h(ex, db, b, row)
        if rerr is not None:
            return ret(None, rerr)
    db.t[b.e].append(row)
    ex.events.append(('insert', b.e, row))
    return ret(entity_from_row(ex, db, b.e, row), None)


def createbulk_terminal(ex, b, meth, a):
    if meth not in ('Save', 'Exec'):
        raise Unsupported('CreateBulk.' + meth)
    db = b.db
    out = []
    if not b.bulk:
        # ent issues no statement for an empty bulk
        return (Slice(None, 0, 0, 0), None) if meth == 'Save' else None
    rows = []
    for cb in b.bulk:
        herr = run_hooks(ex, cb, 1)
        if herr is not None:
            return (Slice(None, 0, 0, 0), herr) if meth == 'Save' else herr
        row, verr = new_row_from_builder(ex, cb)
        if verr is not None:
            return (Slice(None, 0, 0, 0), verr) if meth == 'Save' else verr
        rows.append(row)
    err = fail_or(ex, b, 'INSERT')
    if err is not None:
        return (Slice(None, 0, 0, 0), err) if meth == 'Save' else err
    for row in rows:
        row.slot = len(db.t[b.e])
        db.t[b.e].append(row)
        ex.events.append(('insert', b.e, row))
        out.append(entity_from_row(ex, db, b.e, row))
    return (ex.mkslice(out), None) if meth == 'Save' else None


# FK behaviour on delete, from migrations/message-bus/*.sql
FK_RESTRICT = {'Topic': [('Subscription', 'topic_id'), ('Message', 'topic_id'), ('Snapshot', 'topic_id')],
               'Subscription': [('Delivery', 'subscription_id')], 'Message': [('Delivery', 'message_id')],
               'Delivery': [], 'Snapshot': []}
FK_SETNULL = {'Delivery': [('Delivery', 'not_before_id')], 'Topic': [('Subscription', 'dead_letter_topic_id')]}
# symbol in ent/migrate/schema.go -> (parent entity, (child entity, fk column))
FK_SYMBOLS = {'deliveries_messages_message': ('Message', ('Delivery', 'message_id')), 'deliveries_subscriptions_subscription': ('Subscription', ('Delivery', 'subscription_id')),
              'deliveries_deliveries_nextReady': ('Delivery', ('Delivery', 'not_before_id')), 'messages_topics_topic': ('Topic', ('Message', 'topic_id')),
              'snapshots_topics_topic': ('Topic', ('Snapshot', 'topic_id')), 'subscriptions_topics_topic': ('Topic', ('Subscription', 'topic_id')),
              'subscriptions_topics_deadLetterTopic': ('Topic', ('Subscription', 'dead_letter_topic_id'))}


def load_fk_rules(repo):
    """ON DELETE behaviour of the foreign keys as declared in the current tree (ent/migrate/schema.go, declarative data): SetNull or
    restrict (NoAction / Restrict); an action the model does not know makes deletes of that parent unsupported"""
    import os as _os
    path = _os.path.join(repo, 'ent', 'migrate', 'schema.go')
    try:
        src = open(path).read()
    except OSError:
        return
    found = re.findall(r'Symbol:\s*"([^"]+)",.*?OnDelete:\s*schema\.(\w+)', src, re.S)
    if not found:
        return
    restrict = {e: [] for e in FK_RESTRICT}
    setnull = {}
    for sym, action in found:
        if sym not in FK_SYMBOLS:
            continue
        parent, child = FK_SYMBOLS[sym]
        if action == 'SetNull':
            setnull.setdefault(parent, []).append(child)
        elif action in ('NoAction', 'Restrict'):
            restrict.setdefault(parent, []).append(child)
        else:
            restrict.setdefault(parent, []).append(child + ('unsupported:' + action,))
    FK_RESTRICT.clear(); FK_RESTRICT.update(restrict)
    FK_SETNULL.clear(); FK_SETNULL.update(setnull)


def delete_terminal(ex, b, meth, a):
    db = b.db
    e = b.e
    if meth not in ('Exec',):
        raise Unsupported('%sDelete.%s' % (e, meth))
    err = fail_or(ex, b, 'DELETE')
    if err is not None:
        return (0, err) if b.bkind == 'Delete' else err
    preds = list(b.preds)
    if b.bkind == 'DeleteOne':
        preds.append(P('cmp', 'id', '==', b.one))
    sel = build_selector(ex, db, e, preds)
    if sel.joins:
        raise Unsupported('DELETE with join')
    alias = sel.root.alias
    conds = []
    for r in db.t[e]:
        ctx = {'#ent': {alias: e}, alias: r}
        conds.append((r, And(r.exists, *[eval_pred(ex, db, w, ctx, alias)[0] for w in sel.wheres])))
    # FK RESTRICT: a deleted row still referenced by a surviving child fails the statement
    viol = []
    for child, fkcol, *bad in FK_RESTRICT.get(e, []):
        if bad:
            raise Unsupported('foreign key %s.%s with ON DELETE %s' % (child, fkcol, bad[0]))
        for r, c in conds:
            for ch in db.t[child]:
                viol.append(And(c, ch.exists, Not(ch.isnull(fkcol)), ex.eq(ch.v[fkcol], r.v['id'])))
    if ex.branch(Or(*viol)):
        ferr = constraint_error(ex, db, 'FOREIGN KEY constraint failed')
        return (0, ferr) if b.bkind == 'Delete' else ferr
    n = 0
    for child, fkcol in FK_SETNULL.get(e, []):
        for ch in db.t[child]:
            hit = Or(*[And(c, Not(ch.isnull(fkcol)), ex.eq(ch.v[fkcol], r.v['id'])) for r, c in conds if r is not ch or True])
            ch.null[fkcol] = Ite(hit, True, ch.null.get(fkcol, False))
    for r, c in conds:
        r.exists = simp(And(r.exists, Not(c))) if is_sym(And(r.exists, Not(c))) else And(r.exists, Not(c))
        n = n + Ite(c, 1, 0)
    n = simp(n) if is_sym(n) else n
    if b.bkind == 'DeleteOne':
        if ex.branch(n == 0 if is_sym(n) else n == 0):
            return not_found(ex, e)
        return None
    return (n, None)


def install(xp, prog):
    from .runner import REPO as _REPO
    load_fk_rules(_REPO)
    xp.schema = getattr(prog, '_schema', None) or Schema(prog)
    prog._schema = xp.schema
    xp.schema.by_pkg = {e.lower(): e for e in ENTITIES}
    xp.unordered_limit_any = True
    xp.merge_single_row = True
