"""replay of solver models against the real build (SQLite) through an overlay-injected Go test"""
import json, os, subprocess, tempfile, time, uuid as pyuuid, shutil
import z3
from .core import *
from . import reldb
from .runner import VERIF, REPO

SCRATCH = os.environ.get('VERIF_SCRATCH', '/var/tmp/verif-replay')
GOENV_REPLAY = dict(os.environ, GOFLAGS='-mod=mod', GOPROXY='off')


def uuid_str(n):
    return str(pyuuid.UUID(int=int(n) % (1 << 128)))


def uuid_int(s):
    return pyuuid.UUID(s).int


def zstr_py(s):
    """python str of a z3 string value (as_string may contain \\u{..} escapes)"""
    import re
    return re.sub(r'\\u\{([0-9a-fA-F]+)\}', lambda m: chr(int(m.group(1), 16)), s)


def map_keys(m, arr, acc):
    """collect index keys appearing in the model value of an array"""
    e = m.eval(arr, model_completion=True)

    def walk(x):
        if z3.is_store(x):
            walk(x.arg(0))
            k = x.arg(1)
            if z3.is_string_value(k):
                acc.add(zstr_py(k.as_string()))
        elif z3.is_app(x) and x.num_args() > 0 and not z3.is_const_array(x):
            for i in range(x.num_args()):
                walk(x.arg(i))
    try:
        walk(e)
    except Exception:
        pass
    return acc


def conc_map(m, sm, extra_keys=()):
    keys = set(extra_keys)
    map_keys(m, sm.has, keys)
    map_keys(m, sm.val, keys)
    out = {}
    for k in sorted(keys):
        if z3.is_true(m.eval(z3.Select(sm.has, z3.StringVal(k)), model_completion=True)):
            v = m.eval(z3.Select(sm.val, z3.StringVal(k)), model_completion=True)
            out[k] = zstr_py(v.as_string()) if z3.is_string_value(v) else ''
    return out


def payload_for(ident, ln):
    """a valid JSON document of exactly ln bytes that carries ident when it fits"""
    ln = int(ln)
    if ln > 100000:
        raise ValueError('payload too large to replay')
    if ln <= 0:
        return ''
    if ln == 1:
        return str(int(ident) % 10)
    body = ('p%d' % int(ident))[: ln - 2]
    return '"' + body + 'x' * (ln - 2 - len(body)) + '"'


def conc_val(m, col, v, strkeys=()):
    k = col.kind
    if k == 'map':
        return conc_map(m, v, strkeys)
    if k == 'bytes':
        return payload_for(mval(m, v.ident), mval(m, v.len))
    if k == 'uuidlist':
        return [uuid_str(mval(m, x)) for x in v]
    x = mval(m, v)
    if k == 'uuid':
        return uuid_str(x)
    if k in ('time', 'interval'):
        return str(x)
    return x


def mval(m, v):
    if not is_sym(v):
        return v
    r = m.eval(v, model_completion=True)
    if z3.is_int_value(r):
        return r.as_long()
    if z3.is_true(r):
        return True
    if z3.is_false(r):
        return False
    if z3.is_string_value(r):
        return zstr_py(r.as_string())
    return str(r)


def rows_from_model(m, schema, rows_by_ent, strkeys=()):
    out = {}
    for e, rows in rows_by_ent.items():
        lst = []
        for r in rows:
            if not mval(m, zbool(r.exists)) is True:
                continue
            d = {'slot': r.slot}
            for c in schema.ent[e]:
                n = r.isnull(c.name)
                if n is not False and mval(m, zbool(n)) is True:
                    d[c.name] = None
                else:
                    d[c.name] = conc_val(m, c, r.v[c.name], strkeys)
            lst.append(d)
        out[e] = lst
    return out


_built = {}


def run_scenarios(scns, timeout=900):
    """scns: list of scenario dicts -> list of output dicts (or {'error':...})"""
    os.makedirs(SCRATCH, exist_ok=True)
    d = tempfile.mkdtemp(dir=SCRATCH)
    try:
        paths = []
        for i, s in enumerate(scns):
            p = os.path.join(d, 's%d.json' % i)
            with open(p, 'w') as f:
                json.dump(s, f)
            paths.append(p)
        ov = os.path.join(d, 'overlay.json')
        with open(ov, 'w') as f:
            json.dump({'Replace': {os.path.join(REPO, 'services', 'zz_verif_replay_test.go'):
                                   os.path.join(VERIF, 'replay', 'zz_verif_replay_test.go')}}, f)
        env = dict(GOENV_REPLAY, VERIF_SCENARIOS=':'.join(paths))
        r = subprocess.run(['go', 'test', '-vet=off', '-count=1', '-overlay', ov, '-run', '^TestVerifReplay$', './services'],
                           cwd=REPO, env=env, capture_output=True, text=True, timeout=timeout)
        outs = []
        for p in paths:
            if os.path.exists(p + '.out'):
                outs.append(json.load(open(p + '.out')))
            else:
                outs.append({'error': (r.stdout + r.stderr)[-3000:]})
        return outs
    finally:
        shutil.rmtree(d, ignore_errors=True)


def run_go_test(pkg, driver_file, test, env, timeout=600):
    """run another overlay-injected replay test (driver_file under /verif/replay, injected into /repo/<pkg>); returns (ok, output)"""
    os.makedirs(SCRATCH, exist_ok=True)
    d = tempfile.mkdtemp(dir=SCRATCH)
    try:
        ov = os.path.join(d, 'overlay.json')
        with open(ov, 'w') as f:
            json.dump({'Replace': {os.path.join(REPO, pkg, driver_file): os.path.join(VERIF, 'replay', driver_file)}}, f)
        e = dict(GOENV_REPLAY, **{k: v.replace('$DIR', d) for k, v in env.items()})
        r = subprocess.run(['go', 'test', '-vet=off', '-count=1', '-overlay', ov, '-run', '^%s$' % test, './' + pkg],
                           cwd=REPO, env=e, capture_output=True, text=True, timeout=timeout)
        outs = {}
        for k, v in env.items():
            pth = v.replace('$DIR', d)
            if '$DIR' in v and os.path.exists(pth):
                outs[k] = open(pth).read()
        return r.returncode == 0, (r.stdout + r.stderr)[-2000:], outs
    finally:
        shutil.rmtree(d, ignore_errors=True)


def save_scenario(prop, name, scn, extra=None):
    os.makedirs(os.path.join(VERIF, 'cex'), exist_ok=True)
    p = os.path.join(VERIF, 'cex', '%s-%s.json' % (prop, name.replace('/', '_').replace(' ', '_').replace('[', '_').replace(']', '')))
    with open(p, 'w') as f:
        json.dump(dict(scn, _meta=extra or {}), f, indent=1, default=str)
    return p


# ---- concrete states from a replay dump
def concrete_db(schema, dump, pre_rows=None):
    """DB whose rows hold concrete values from a dump. If pre_rows (concrete dicts with 'slot') is given,
    rows are aligned: row i of the result corresponds to pre_rows[i] (exists False if it vanished)."""
    db = reldb.DB(schema)
    for e in reldb.ENTITIES:
        got = {r['id']: r for r in dump.get(e, []) or []}
        order = []
        if pre_rows is not None:
            for pr in pre_rows.get(e, []):
                order.append((pr['id'], got.pop(pr['id'], None), pr))
        for i, r in got.items():
            order.append((i, r, None))
        for slot, (i, r, pr) in enumerate(order):
            v, null = {}, {}
            src = r if r is not None else pr
            for c in schema.ent[e]:
                x = src.get(c.name)
                if c.nullable:
                    null[c.name] = x is None
                v[c.name] = conc_to_model(c, x)
            db.t[e].append(reldb.Row(e, r is not None, v, null, slot, created=pr is None))
    return db


def conc_to_model(c, x):
    k = c.kind
    if x is None:
        return {'uuid': 0, 'time': ZERO_TIME_NS, 'str': '', 'bool': False, 'int': 0, 'interval': 0,
                'map': SymMap(z3.K(z3.StringSort(), z3.BoolVal(False)), z3.K(z3.StringSort(), z3.StringVal('')), nil=True),
                'bytes': OpaqueBytes(0, 0), 'uuidlist': ()}[k]
    if k == 'uuid':
        return uuid_int(x)
    if k in ('time', 'interval', 'int'):
        return int(x)
    if k == 'map':
        has = z3.K(z3.StringSort(), z3.BoolVal(False))
        val = z3.K(z3.StringSort(), z3.StringVal(''))
        for kk, vv in x.items():
            has = z3.Store(has, z3.StringVal(kk), z3.BoolVal(True))
            val = z3.Store(val, z3.StringVal(kk), z3.StringVal(vv))
        return SymMap(has, val)
    if k == 'bytes':
        ident = 0
        s = x.strip('"')
        if s.startswith('p'):
            digits = ''.join(ch for ch in s[1:] if ch.isdigit())
            ident = int(digits) if digits else 0
        return OpaqueBytes(ident, len(x.encode('utf-8')))
    if k == 'uuidlist':
        return tuple(uuid_int(i) for i in x)
    return x
