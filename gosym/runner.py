"""check runner: program loading (regenerated from /repo on every run), obligations, evidence"""
import hashlib, json, os, subprocess, sys, time, traceback
import z3
from .core import *
from . import stdlib

VERIF = os.path.dirname(os.path.dirname(os.path.abspath(__file__)))
REPO = os.environ.get('VERIF_REPO', '/repo')
CACHE = os.path.join(VERIF, '.cache')

GOENV = dict(os.environ, PATH='/opt/veriftools/go1.26.8/bin:' + os.environ.get('PATH', ''), GOTOOLCHAIN='local',
             GOFLAGS='-mod=mod', GOPROXY='off', GOSUMDB='off')

ROOTS = './actions,./services,./filter,./faults,./internal/sqltypes,./parse,./grpc,./ent'
FOLLOW = ['go.6river.tech/mmmbbb/']


def repo_hash():
    h = hashlib.sha256()
    for root, dirs, files in os.walk(REPO):
        dirs[:] = sorted(d for d in dirs if d not in ('.git', 'node_modules'))
        for f in sorted(files):
            if f.endswith('.go') and not f.endswith('_test.go') or f in ('go.mod',):
                p = os.path.join(root, f)
                h.update(p.encode())
                with open(p, 'rb') as fh:
                    h.update(fh.read())
    return h.hexdigest()[:16]


def ensure_exporter():
    exe = os.path.join(VERIF, 'bin', 'ssaexport')
    src = os.path.join(VERIF, 'ssaexport', 'main.go')
    if not os.path.exists(exe) or os.path.getmtime(exe) < os.path.getmtime(src):
        os.makedirs(os.path.dirname(exe), exist_ok=True)
        subprocess.check_call(['go', 'build', '-o', exe, '.'], cwd=os.path.join(VERIF, 'ssaexport'), env=GOENV)
    return exe


def load_program(extra=(), follow=(), key='main'):
    """export SSA from the current /repo tree (cached by content hash of its .go files)"""
    os.makedirs(CACHE, exist_ok=True)
    h = repo_hash()
    tag = hashlib.sha256(('|'.join(sorted(extra)) + '#' + '|'.join(sorted(follow))).encode()).hexdigest()[:8]
    out = os.path.join(CACHE, 'ssa-%s-%s-%s.json' % (key, h, tag))
    if not os.path.exists(out):
        exe = ensure_exporter()
        for f in os.listdir(CACHE):
            if f.startswith('ssa-%s-' % key) and f.endswith('-%s.json' % tag):
                os.unlink(os.path.join(CACHE, f))
        cmd = [exe, '-dir', REPO, '-roots', ROOTS, '-out', out + '.tmp']
        for f in list(FOLLOW) + list(follow):
            cmd += ['-follow', f]
        if extra:
            cmd += ['-extra', ','.join(extra)]
        t0 = time.time()
        r = subprocess.run(cmd, env=GOENV, capture_output=True, text=True)
        if r.returncode != 0:
            sys.stderr.write(r.stdout + r.stderr)
            raise SystemExit('ssaexport failed (the tree does not build?)')
        os.rename(out + '.tmp', out)
        sys.stderr.write('[ssaexport %.1fs] %s' % (time.time() - t0, r.stderr))
    p = Program(out)
    p.repo_hash = h
    return p


class Violation:
    def __init__(self, obligation, label, model_desc, replay=None, reproduced=None):
        self.obligation = obligation
        self.label = label
        self.model_desc = model_desc
        self.replay = replay
        self.reproduced = reproduced


class Check:
    def __init__(self, prop_id, argv=None):
        self.prop = prop_id
        self.tier = os.environ.get('VERIF_TIER', 'quick')
        argv = sys.argv[1:] if argv is None else argv
        for a in argv:
            if a in ('quick', 'thorough'):
                self.tier = a
        self.seed = int(os.environ.get('VERIF_SEED', '0') or 0)
        self.t0 = time.time()
        self.obligations = []
        self.violations = []
        self.known = []
        self.inconclusive = []
        self.samples = []
        self.assumptions = []
        self.bounds = {}
        self.executed = {}
        self.nqueries = 0
        self.solver_time = 0.0
        self.paths = 0
        self.discharged = 0
        self.reach = 0
        self.replayed = 0
        self.modelgaps = []
        self.trusted = set()
        kf = os.path.join(VERIF, 'known_findings.json')
        self.known_findings = json.load(open(kf)) if os.path.exists(kf) else {'findings': []}

    @property
    def thorough(self):
        return self.tier == 'thorough'

    # ---- running one obligation
    def run(self, name, prog, harness, bounds=None, intr=None, pats=None, setup=None, merge=None, **xopts):
        """harness(ex, ob) explores paths; it calls ob.verify(ex, label, formula, ...)"""
        ob = Obligation(self, name, bounds or {})
        xp = Explorer(prog, intrinsics=dict(stdlib.INTR, **(intr or {})), patterns=list(pats or []) + stdlib.PATS, **xopts)
        if setup:
            setup(xp)
        if merge:
            xp.merge_funcs |= set(merge)
        ob.xp = xp

        def on_path(ex, kind, info):
            ob.paths += 1
            if kind == 'unsupported':
                ob.inconclusive.append('unsupported: %s' % info)
            elif kind == 'unwind':
                ob.inconclusive.append('unwinding assertion failed: %s' % info)
            elif kind == 'panic':
                ob.on_panic(ex, info)
        t0 = time.time()
        try:
            xp.run(lambda ex: harness(ex, ob), on_path)
        except Exception as e:  # machinery failure: never an alarm
            ob.inconclusive.append('machinery error: %s' % (traceback.format_exc(limit=6),))
        ob.wall = time.time() - t0
        ob.stats = dict(xp.stats)
        if xp.stats.get('truncated'):
            ob.inconclusive.append('path budget exhausted: %d prefixes not explored' % xp.stats['truncated'])
        if xp.unknowns:
            ob.inconclusive.append('%d solver queries returned unknown' % xp.unknowns)
        self.nqueries += xp.nqueries + ob.nqueries
        self.solver_time += xp.solver_time + ob.solver_time
        for k, v in xp.executed.items():
            self.executed[k] = self.executed.get(k, 0) + v
        self.paths += ob.paths
        self.discharged += ob.discharged
        self.reach += ob.reach
        self.obligations.append(ob)
        if ob.reach == 0 and not ob.inconclusive and ob.expect_reach:
            ob.inconclusive.append('vacuous: no path reached an assertion (reachability twin unsat)')
        for m in ob.inconclusive[:5]:
            print('INCONCLUSIVE property=%s obligation=%s %s' % (self.prop, name, m.splitlines()[-1][:300]))
        status = 'ok' if not ob.violations and not ob.inconclusive else ('VIOLATED' if ob.violations else 'inconclusive')
        print('[%s] %-46s paths=%d checks=%d reach=%d %.1fs %s' % (self.prop, name, ob.paths, ob.discharged, ob.reach, ob.wall, status))
        sys.stdout.flush()
        return ob

    # ---- finishing
    def finish(self, level='model_checking', extra_cov=None):
        os.makedirs(os.path.join(VERIF, 'evidence'), exist_ok=True)
        viol = []
        for ob in self.obligations:
            viol += ob.violations
        inconc = []
        for ob in self.obligations:
            inconc += ['%s: %s' % (ob.name, m.splitlines()[-1][:400]) for m in ob.inconclusive]
        cov = {
            'states': max(self.paths, 1), 'transitions': max(self.nqueries, 1),
            'traces_validated_against_impl': self.replayed,
            'samples': self.samples[:6] or [{'obligation': ob.name, 'bounds': ob.bounds} for ob in self.obligations[:3]],
            'obligations': len(self.obligations), 'discharged_assertions': self.discharged,
            'reachability_witnesses': self.reach,
            'queries': self.nqueries, 'solver_time_s': round(self.solver_time, 2),
            'functions_encoded': sorted(self.executed.keys()),
            'functions_encoded_count': len(self.executed),
            'bounds': self.bounds, 'inconclusive': inconc, 'model_gaps': self.modelgaps,
            'per_obligation': [{'name': ob.name, 'paths': ob.paths, 'assertions_discharged': ob.discharged,
                                'reach': ob.reach, 'wall_s': round(ob.wall, 2), 'bounds': ob.bounds,
                                'violations': len(ob.violations), 'stats': ob.stats} for ob in self.obligations],
            'repo_hash': getattr(self, 'repo_hash', None),
            'known_findings_hit': self.known,
            'exhaustive': False,
        }
        if extra_cov:
            cov.update(extra_cov)
        ev = {'property_id': self.prop, 'tier': self.tier, 'seed': self.seed, 'level': level, 'coverage': cov,
              'assumptions': sorted(set(self.assumptions)), 'wall_s': round(time.time() - self.t0, 2),
              'violations': len(viol)}
        with open(os.path.join(VERIF, 'evidence', self.prop + '.json'), 'w') as f:
            json.dump(ev, f, indent=1, default=str)
        for k in self.known:
            print('KNOWN-FINDING: property=%s %s' % (self.prop, k))
        for v in viol:
            print('VIOLATION property=%s replay=%s' % (self.prop, v.replay))
            print('  obligation=%s assertion=%s' % (v.obligation, v.label))
        print('[%s] tier=%s obligations=%d paths=%d assertions=%d queries=%d solver=%.1fs wall=%.1fs violations=%d inconclusive=%d' % (
            self.prop, self.tier, len(self.obligations), self.paths, self.discharged, self.nqueries, self.solver_time,
            time.time() - self.t0, len(viol), len(inconc)))
        sys.exit(1 if viol else 0)


class Obligation:
    def __init__(self, chk, name, bounds):
        self.chk = chk
        self.name = name
        self.bounds = bounds
        self.paths = 0
        self.discharged = 0
        self.reach = 0
        self.violations = []
        self.inconclusive = []
        self.nqueries = 0
        self.solver_time = 0.0
        self.wall = 0.0
        self.stats = {}
        self.expect_reach = True
        self.panic_handler = None
        self.seen_cex = set()

    def on_panic(self, ex, p):
        if self.panic_handler is not None:
            self.panic_handler(ex, p)
        else:
            self.inconclusive.append('unexpected Go panic on a path: %s' % (p,))

    def reached(self, ex):
        self.reach += 1

    def verify(self, ex, label, formula, describe=None, replay=None, known=None):
        """assert formula on this path: query pc /\\ not formula"""
        self.reach += 1
        if formula is True:
            self.discharged += 1
            return True
        neg = Not(formula)
        t0 = time.time()
        r = ex.solver.check(zbool(neg)) if neg is not True else ex.solver.check()
        self.solver_time += time.time() - t0
        self.nqueries += 1
        if r == z3.unsat:
            self.discharged += 1
            return True
        if r == z3.unknown:
            self.inconclusive.append('solver unknown at assertion %s' % label)
            return True
        m = ex.solver.model()
        desc = describe(m) if describe else {'model': str(m)[:2000]}
        # known findings: a finding is identified by (property, obligation prefix, label prefix, optional predicate id)
        for kf in self.chk.known_findings.get('findings', []):
            if kf.get('property') == self.chk.prop and kf.get('status', 'open') == 'open' \
               and self.name.startswith(kf.get('obligation', '')) and label.startswith(kf.get('assertion', '')):
                pred = kf.get('predicate')
                if pred is None or (known and known(pred, m, desc)):
                    msg = '%s [%s/%s]' % (kf['what'], self.name, label)
                    if msg not in self.chk.known:
                        self.chk.known.append(msg)
                    return False
        key = (label,)
        if key in self.seen_cex:
            return False
        self.seen_cex.add(key)
        path = None
        reproduced = None
        if replay is not None:
            try:
                reproduced, path = replay(m, desc)
                self.chk.replayed += 1
            except Exception as e:
                self.inconclusive.append('replay machinery failed for %s: %s' % (label, traceback.format_exc(limit=4)))
                return False
            if not reproduced:
                self.chk.modelgaps.append({'obligation': self.name, 'assertion': label, 'cex': desc})
                self.inconclusive.append('MODEL-GAP: solver counterexample for %s did not reproduce on the real build' % label)
                return False
        else:
            os.makedirs(os.path.join(VERIF, 'cex'), exist_ok=True)
            path = os.path.join(VERIF, 'cex', '%s-%s-%s.json' % (self.chk.prop, self.name.replace('/', '_'), label.replace('/', '_').replace(' ', '_')))
            with open(path, 'w') as f:
                json.dump({'property': self.chk.prop, 'obligation': self.name, 'assertion': label, 'cex': desc,
                           'note': 'solver counterexample (no concrete replay driver for this obligation)'}, f, indent=1, default=str)
        self.violations.append(Violation(self.name, label, desc, path, reproduced))
        return False
