"""check runner: program loading (regenerated from /repo on every run), obligations, evidence"""
import hashlib, json, os, subprocess, sys, time, traceback
import z3
from .core import *
from . import stdlib
from . import grpcmodel

VERIF = os.path.dirname(os.path.dirname(os.path.abspath(__file__)))
REPO = os.environ.get('VERIF_REPO', '/repo')
CACHE = os.path.join(VERIF, '.cache')

GOENV = dict(os.environ, PATH='/opt/veriftools/go1.26.8/bin:' + os.environ.get('PATH', ''), GOTOOLCHAIN='local',
             GOFLAGS='-mod=mod', GOPROXY='off', GOSUMDB='off')

ROOTS = './actions,./services,./filter,./faults,./internal/sqltypes,./parse,./grpc,./ent,./ent/schema'
FOLLOW = ['go.6river.tech/mmmbbb/', 'google.golang.org/protobuf/types/known/durationpb', 'google.golang.org/protobuf/types/known/timestamppb',
          'google.golang.org/protobuf/types/known/fieldmaskpb', '(*cloud.google.com/go/pubsub/apiv1/pubsubpb.']


def repo_hash():
    h = hashlib.sha256()
    for root, dirs, files in os.walk(REPO):
        dirs[:] = sorted(d for d in dirs if d not in ('.git', 'node_modules'))
        for f in sorted(files):
            if f.endswith('.go') and not f.endswith('_test.go') or f in ('go.mod',):
                p = os.path.join(root, f)
                h.update(p.encode())
                with open(p, 'rb') as fh:
                    h.update(fh.read())
    return h.hexdigest()[:16]


def ensure_exporter():
    exe = os.path.join(VERIF, 'bin', 'ssaexport')
    src = os.path.join(VERIF, 'ssaexport', 'main.go')
    if not os.path.exists(exe) or os.path.getmtime(exe) < os.path.getmtime(src):
        os.makedirs(os.path.dirname(exe), exist_ok=True)
        subprocess.check_call(['go', 'build', '-o', exe, '.'], cwd=os.path.join(VERIF, 'ssaexport'), env=GOENV)
    return exe


def load_program(extra=(), follow=(), key='main'):
    """export SSA from the current /repo tree (cached by content hash of its .go files)"""
    os.makedirs(CACHE, exist_ok=True)
    h = repo_hash()
    tag = hashlib.sha256(('|'.join(sorted(extra)) + '#' + '|'.join(sorted(follow)) + '#' + ROOTS + '#' + '|'.join(FOLLOW) + '#' + open(os.path.join(VERIF, 'ssaexport', 'main.go')).read()).encode()).hexdigest()[:8]
    out = os.path.join(CACHE, 'ssa-%s-%s-%s.json' % (key, h, tag))
    if not os.path.exists(out):
        import fcntl
        with open(os.path.join(CACHE, 'lock'), 'w') as lk:   # checks may be started concurrently
            fcntl.flock(lk, fcntl.LOCK_EX)
            if not os.path.exists(out):
                exe = ensure_exporter()
                for f in os.listdir(CACHE):
                    # stale exports (other tree states); recent ones may be in use by a concurrently running check
                    if f.startswith('ssa-%s-' % key) and f.endswith('.json') and time.time() - os.path.getmtime(os.path.join(CACHE, f)) > 7200:
                        os.unlink(os.path.join(CACHE, f))
                tmp = '%s.%d.tmp' % (out, os.getpid())
                cmd = [exe, '-dir', REPO, '-roots', ROOTS, '-out', tmp]
                for f in list(FOLLOW) + list(follow):
                    cmd += ['-follow', f]
                if extra:
                    cmd += ['-extra', ','.join(extra)]
                t0 = time.time()
                r = subprocess.run(cmd, env=GOENV, capture_output=True, text=True)
                if r.returncode != 0:
                    sys.stderr.write(r.stdout + r.stderr)
                    raise SystemExit('ssaexport failed (the tree does not build?)')
                os.rename(tmp, out)
                sys.stderr.write('[ssaexport %.1fs] %s' % (time.time() - t0, r.stderr))
    os.utime(out)
    p = Program(out)
    p.repo_hash = h
    return p


class Violation:
    def __init__(self, obligation, label, model_desc, replay=None, reproduced=None):
        self.obligation = obligation
        self.label = label
        self.model_desc = model_desc
        self.replay = replay
        self.reproduced = reproduced


class Check:
    def __init__(self, prop_id, argv=None):
        self.prop = prop_id
        self.tier = os.environ.get('VERIF_TIER', 'quick')
        argv = sys.argv[1:] if argv is None else argv
        for a in argv:
            if a in ('quick', 'thorough'):
                self.tier = a
        self.seed = int(os.environ.get('VERIF_SEED', '0') or 0)
        self.t0 = time.time()
        self.obligations = []
        self.violations = []
        self.known = []
        self.inconclusive = []
        self.samples = []
        self.assumptions = []
        self.bounds = {}
        self.executed = {}
        self.nqueries = 0
        self.solver_time = 0.0
        self.paths = 0
        self.discharged = 0
        self.reach = 0
        self.replayed = 0
        self.modelgaps = []
        self.trusted = set()
        self.no_replay = bool(os.environ.get('VERIF_NO_REPLAY'))
        self.jobs = int(os.environ.get('VERIF_JOBS', '0') or 0) or min(16, os.cpu_count() or 1)
        self.isolate = os.environ.get('VERIF_ISOLATE', '1') != '0'
        kf = os.path.join(VERIF, 'known_findings.json')
        self.known_findings = json.load(open(kf)) if os.path.exists(kf) else {'findings': []}

    @property
    def thorough(self):
        return self.tier == 'thorough'

    # ---- running one obligation
    def run(self, name, prog, harness, **kw):
        """run one obligation.  With process forking enabled the whole obligation runs in a child forked from the (small, clean)
        root process, so that the heap grown by one obligation does not tax the forks of the next one."""
        parallel = kw.get('parallel', True)
        only = os.environ.get('VERIF_ONLY')   # development aid: run only the obligations whose name contains this text
        if only and only not in name:
            return None
        if not (self.jobs > 1 and parallel and self.isolate):
            return self.run_inner(name, prog, harness, **kw)
        import pickle, tempfile
        sys.stdout.flush()
        fd, path = tempfile.mkstemp(prefix='verif-ob-', dir='/dev/shm' if os.path.isdir('/dev/shm') else None)
        os.close(fd)
        pid = os.fork()
        if pid == 0:
            code = 0
            try:
                os.setsid()       # own process group: the watchdog below can end the obligation with all its path processes
            except OSError:
                pass
            try:
                self.obligations, self.samples, self.known, self.modelgaps = [], [], [], []
                self.executed, self.nqueries, self.solver_time, self.paths, self.discharged, self.reach, self.replayed = {}, 0, 0.0, 0, 0, 0, 0
                ob = self.run_inner(name, prog, harness, **kw)
                out = dict(name=ob.name, bounds=ob.bounds, paths=ob.paths, discharged=ob.discharged, reach=ob.reach, wall=ob.wall, stats=ob.stats,
                           inconclusive=ob.inconclusive, sample_assertions=ob.sample_assertions, witnesses=getattr(ob, 'witnesses', None),
                           violations=[(v.obligation, v.label, v.model_desc, v.replay, v.reproduced) for v in ob.violations],
                           unsupported=ob.xp.unsupported, fork_sites=ob.xp.fork_sites,
                           chk=dict(executed=self.executed, nqueries=self.nqueries, solver_time=self.solver_time, known=self.known,
                                    modelgaps=self.modelgaps, replayed=self.replayed, samples=self.samples))
                with open(path, 'wb') as f:
                    pickle.dump(out, f)
            except BaseException:
                code = 1
                try:
                    with open(path, 'wb') as f:
                        pickle.dump({'error': traceback.format_exc()[-2000:]}, f)
                except BaseException:
                    pass
            sys.stdout.flush()
            os._exit(code)
        # watchdog: an obligation that does not finish within its budget is reported inconclusive (never hangs the check)
        budget = float(os.environ.get('VERIF_OB_TIMEOUT', '0') or 0) or (2400.0 if self.thorough else 1200.0)
        t_end = time.time() + budget
        timed_out = False
        while True:
            done, _ = os.waitpid(pid, os.WNOHANG)
            if done:
                break
            if time.time() > t_end:
                timed_out = True
                try:
                    os.killpg(pid, 9)
                except OSError:
                    pass
                try:
                    os.waitpid(pid, 0)
                except OSError:
                    pass
                break
            time.sleep(0.2)
        if timed_out:
            with open(path, 'wb') as f:
                pickle.dump({'error': 'obligation exceeded its time budget of %d s (stopped by the watchdog)' % budget}, f)
        ob = Obligation(self, name, kw.get('bounds') or {})
        ob.xp = type('XP', (), {'unsupported': {}, 'fork_sites': {}, 'schema': None})()
        try:
            with open(path, 'rb') as f:
                out = pickle.load(f)
        except Exception:
            out = {'error': 'obligation worker left no result'}
        finally:
            try:
                os.unlink(path)
            except OSError:
                pass
        if 'error' in out:
            ob.inconclusive.append('machinery error: ' + out['error'])
            print('INCONCLUSIVE property=%s obligation=%s %s' % (self.prop, name, out['error'].splitlines()[-1][:300]))
        else:
            ob.bounds, ob.paths, ob.discharged, ob.reach, ob.wall, ob.stats = out['bounds'], out['paths'], out['discharged'], out['reach'], out['wall'], out['stats']
            ob.inconclusive, ob.sample_assertions = out['inconclusive'], out['sample_assertions']
            if out['witnesses'] is not None:
                ob.witnesses = out['witnesses']
            ob.violations = [Violation(*v) for v in out['violations']]
            ob.xp.unsupported, ob.xp.fork_sites = out['unsupported'], out['fork_sites']
            c = out['chk']
            for k, v in c['executed'].items():
                self.executed[k] = self.executed.get(k, 0) + v
            self.nqueries += c['nqueries']
            self.solver_time += c['solver_time']
            self.replayed += c['replayed']
            self.modelgaps += c['modelgaps']
            self.samples += c['samples']
            for k in c['known']:
                if k not in self.known:
                    self.known.append(k)
            self.paths += ob.paths
            self.discharged += ob.discharged
            self.reach += ob.reach
        self.obligations.append(ob)
        return ob

    def run_inner(self, name, prog, harness, bounds=None, intr=None, pats=None, setup=None, merge=None, pre_run=None, parallel=True, **xopts):
        """harness(ex, ob) explores paths; it calls ob.verify(ex, label, formula, ...)"""
        ob = Obligation(self, name, bounds or {})
        xp = Explorer(prog, intrinsics=dict(stdlib.INTR, **(intr or {})), patterns=list(pats or []) + stdlib.PATS, **xopts)
        if setup:
            setup(xp)
        if merge:
            xp.merge_funcs |= set(merge)
        import multiprocessing as _mp
        ob.replay_budget = _mp.Value('i', int(os.environ.get('VERIF_REPLAY_BUDGET', '12')))
        ob.xp = xp
        xp.profile_forks = bool(os.environ.get('VERIF_PROFILE'))
        if pre_run:
            pre_run(ob)

        def on_path(ex, kind, info):
            ob.paths += 1
            if kind == 'unsupported':
                ob.inconclusive.append('unsupported: %s' % info)
            elif kind == 'unwind':
                ob.inconclusive.append('unwinding assertion failed: %s' % info)
            elif kind == 'panic':
                ob.on_panic(ex, info)
        t0 = time.time()
        try:
            if self.jobs > 1 and parallel:
                self.run_parallel(xp, ob, harness, on_path)
            else:
                xp.run(lambda ex: harness(ex, ob), on_path)
        except Exception as e:  # machinery failure: never an alarm
            ob.inconclusive.append('machinery error: %s' % (traceback.format_exc(limit=-10),))
        ob.wall = time.time() - t0
        ob.stats = dict(xp.stats)
        if xp.stats.get('truncated'):
            ob.inconclusive.append('path budget exhausted: %d prefixes not explored' % xp.stats['truncated'])
        if xp.unknowns:
            ob.inconclusive.append('%d solver queries returned unknown' % xp.unknowns)
        self.nqueries += xp.nqueries + ob.nqueries
        self.solver_time += xp.solver_time + ob.solver_time
        for k, v in xp.executed.items():
            self.executed[k] = self.executed.get(k, 0) + v
        self.paths += ob.paths
        self.discharged += ob.discharged
        self.reach += ob.reach
        self.obligations.append(ob)
        if ob.reach == 0 and not ob.inconclusive and ob.expect_reach:
            ob.inconclusive.append('vacuous: no path reached an assertion (reachability twin unsat)')
        for m in ob.inconclusive[:5]:
            print('INCONCLUSIVE property=%s obligation=%s %s' % (self.prop, name, m.splitlines()[-1][:300]))
            if os.environ.get('VERIF_DEBUG'):
                print(m)
        if xp.profile_forks:
            for k, v in sorted(xp.fork_sites.items(), key=lambda kv: -kv[1])[:25]:
                print('   fork-site %6d %s' % (v, k))
        status = 'ok' if not ob.violations and not ob.inconclusive else ('VIOLATED' if ob.violations else 'inconclusive')
        print('[%s] %-46s paths=%d checks=%d reach=%d %.1fs %s' % (self.prop, name, ob.paths, ob.discharged, ob.reach, ob.wall, status))
        sys.stdout.flush()
        return ob

    def run_parallel(self, xp, ob, harness, on_path):
        """process-forking exploration (see core.ForkCtx): every path runs in its own process from its fork point"""
        import pickle, tempfile, shutil
        tmpd = tempfile.mkdtemp(prefix='verif-fork-', dir='/dev/shm' if os.path.isdir('/dev/shm') else None)
        import atexit
        root_pid = os.getpid()
        atexit.register(lambda: os.getpid() == root_pid and shutil.rmtree(tmpd, ignore_errors=True))
        chk = self

        def reset():
            ob.paths = ob.discharged = ob.reach = ob.nqueries = 0
            ob.solver_time = 0.0
            ob.violations, ob.inconclusive = [], []
            if hasattr(ob, 'witnesses'):
                ob.witnesses = []
            ob.seen_cex = set()
            chk.known, chk.modelgaps, chk.replayed = [], [], 0
            xp.nqueries, xp.solver_time, xp.unknowns = 0, 0.0, 0
            xp.stats = {k: 0 for k in xp.stats}
            xp.executed.clear()
            xp.unsupported = {}
            xp.fork_sites = {}
        fc = ForkCtx(self.jobs, xp.max_paths, reset)
        xp.fork_ctx = fc
        try:
            xp.run(lambda ex: harness(ex, ob), on_path)
        except BaseException:
            if fc.is_child:
                ob.inconclusive.append('machinery error: %s' % traceback.format_exc(limit=-10))
            else:
                raise
        finally:
            fc.finish()
            if fc.is_child:
                code = 0
                try:
                    out = dict(paths=ob.paths, discharged=ob.discharged, reach=ob.reach, nq=ob.nqueries, st=ob.solver_time,
                               xq=xp.nqueries, xst=xp.solver_time, unk=xp.unknowns, stats=xp.stats, executed=dict(xp.executed),
                               unsupported=xp.unsupported, inconclusive=ob.inconclusive, fork_sites=xp.fork_sites,
                               violations=[(v.obligation, v.label, v.model_desc, v.replay, v.reproduced) for v in ob.violations],
                               witnesses=getattr(ob, 'witnesses', None), known=chk.known, modelgaps=chk.modelgaps, replayed=chk.replayed)
                    with open(os.path.join(tmpd, '%d-%d.pkl' % (os.getpid(), time.time_ns())), 'wb') as f:
                        pickle.dump(out, f)
                except BaseException:
                    code = 1
                    try:
                        with open(os.path.join(tmpd, '%d-%d-err.pkl' % (os.getpid(), time.time_ns())), 'wb') as f:
                            pickle.dump({'worker_error': traceback.format_exc()[-1500:]}, f)
                    except BaseException:
                        pass
                os._exit(code)
        xp.fork_ctx = None
        if fc.truncated.value:
            xp.stats['truncated'] = fc.truncated.value
        for fn in sorted(os.listdir(tmpd)):
            try:
                with open(os.path.join(tmpd, fn), 'rb') as f:
                    out = pickle.load(f)
            except Exception:
                ob.inconclusive.append('a path worker left no result')
                continue
            if 'worker_error' in out:
                ob.inconclusive.append('a path worker failed to report: ' + out['worker_error'])
                continue
            ob.paths += out['paths']
            ob.discharged += out['discharged']
            ob.reach += out['reach']
            ob.nqueries += out['nq']
            ob.solver_time += out['st']
            xp.nqueries += out['xq']
            xp.solver_time += out['xst']
            xp.unknowns += out['unk']
            for k, v in out['stats'].items():
                xp.stats[k] = xp.stats.get(k, 0) + v
            for k, v in out['executed'].items():
                xp.executed[k] = xp.executed.get(k, 0) + v
            for k, v in out['unsupported'].items():
                xp.unsupported[k] = xp.unsupported.get(k, 0) + v
            for k, v in out['fork_sites'].items():
                xp.fork_sites[k] = xp.fork_sites.get(k, 0) + v
            for m in out['inconclusive']:
                if len(ob.inconclusive) < 50:
                    ob.inconclusive.append(m)
            seen = set(v.label for v in ob.violations)
            for (o, l, d, rp, rep) in out['violations']:
                if l not in seen:
                    seen.add(l)
                    ob.violations.append(Violation(o, l, d, rp, rep))
            if out['witnesses'] and hasattr(ob, 'witnesses'):
                ob.witnesses += out['witnesses'][: max(0, 2 - len(ob.witnesses))]
            for k in out['known']:
                if k not in self.known:
                    self.known.append(k)
            self.modelgaps += out['modelgaps']
            self.replayed += out['replayed']
        shutil.rmtree(tmpd, ignore_errors=True)

    # ---- finishing
    def finish(self, level='model_checking', extra_cov=None):
        os.makedirs(os.path.join(VERIF, 'evidence'), exist_ok=True)
        viol = []
        for ob in self.obligations:
            viol += ob.violations
        inconc = []
        for ob in self.obligations:
            inconc += ['%s: %s' % (ob.name, m.splitlines()[-1][:400]) for m in ob.inconclusive]
        cov = {
            'states': max(self.paths, 1), 'transitions': max(self.nqueries, 1),
            'traces_validated_against_impl': self.replayed,
            'samples': (self.samples[:6] + [{'obligation': ob.name, 'bounds': ob.bounds, 'assertions': ob.sample_assertions} for ob in self.obligations[:4]])[:8],
            'obligations': len(self.obligations), 'discharged_assertions': self.discharged,
            'reachability_witnesses': self.reach,
            'queries': self.nqueries, 'solver_time_s': round(self.solver_time, 2),
            'functions_encoded': sorted(self.executed.keys()),
            'functions_encoded_count': len(self.executed),
            'bounds': self.bounds, 'inconclusive': inconc, 'model_gaps': self.modelgaps,
            'per_obligation': [{'name': ob.name, 'paths': ob.paths, 'assertions_discharged': ob.discharged,
                                'reach': ob.reach, 'wall_s': round(ob.wall, 2), 'bounds': ob.bounds,
                                'violations': len(ob.violations), 'stats': ob.stats} for ob in self.obligations],
            'repo_hash': getattr(self, 'repo_hash', None),
            'known_findings_hit': self.known,
            'exhaustive': False,
        }
        if extra_cov:
            cov.update(extra_cov)
        ev = {'property_id': self.prop, 'tier': self.tier, 'seed': self.seed, 'level': level, 'coverage': cov,
              'assumptions': sorted(set(self.assumptions)), 'wall_s': round(time.time() - self.t0, 2),
              'violations': len(viol)}
        with open(os.path.join(VERIF, 'evidence', self.prop + '.json'), 'w') as f:
            json.dump(ev, f, indent=1, default=str)
        for k in self.known:
            print('KNOWN-FINDING: property=%s %s' % (self.prop, k))
        for v in viol:
            print('VIOLATION property=%s replay=%s' % (self.prop, v.replay))
            print('  obligation=%s assertion=%s' % (v.obligation, v.label))
        print('[%s] tier=%s obligations=%d paths=%d assertions=%d queries=%d solver=%.1fs wall=%.1fs violations=%d inconclusive=%d' % (
            self.prop, self.tier, len(self.obligations), self.paths, self.discharged, self.nqueries, self.solver_time,
            time.time() - self.t0, len(viol), len(inconc)))
        sys.exit(1 if viol else 0)


class Obligation:
    def __init__(self, chk, name, bounds):
        self.chk = chk
        self.name = name
        self.bounds = bounds
        self.paths = 0
        self.discharged = 0
        self.reach = 0
        self.violations = []
        self.inconclusive = []
        self.nqueries = 0
        self.solver_time = 0.0
        self.wall = 0.0
        self.stats = {}
        self.expect_reach = True
        self.panic_handler = None
        self.seen_cex = set()
        self.sample_assertions = []

    def on_panic(self, ex, p):
        if self.panic_handler is not None:
            self.panic_handler(ex, p)
        else:
            self.inconclusive.append('unexpected Go panic on a path: %s' % (p,))

    def reached(self, ex):
        self.reach += 1

    def verify(self, ex, label, formula, describe=None, replay=None, known=None):
        """assert formula on this path: query pc /\\ not formula"""
        self.reach += 1
        if formula is True:
            self.discharged += 1
            return True
        neg = Not(formula)
        t0 = time.time()
        if os.environ.get('VERIF_DEBUG') == 'verify':
            print('VERIFY %s %s pc=%d' % (self.name, label, len(ex.pc)), flush=True)
        r = ex.solver.check(zbool(neg)) if neg is not True else ex.solver.check()
        self.solver_time += time.time() - t0
        self.nqueries += 1
        if r == z3.unsat:
            self.discharged += 1
            if len(self.sample_assertions) < 2:
                self.sample_assertions.append({'assertion': label, 'verdict': 'unsat: holds on this path for all symbolic values',
                                               'path_condition_conjuncts': len(ex.pc)})
            return True
        if r == z3.unknown:
            self.inconclusive.append('solver unknown at assertion %s' % label)
            return True
        m = ex.solver.model()
        small = ex.env.get('small_model')
        if small:
            # prefer a counterexample that can be replayed: small payloads, no knife-edge instants
            margins = ex.env.get('replay_margins')
            extra = margins(ex) if margins else []
            extra2 = []
            if margins:
                try:
                    extra2 = margins(ex, gap=2 * 10**9)     # a violation may need an instant closer than a minute to "now"
                except TypeError:
                    extra2 = []
            if os.environ.get('VERIF_DEBUG') == 'margins' and extra and ex.solver.check(zbool(neg), *(small + extra)) != z3.sat:
                bad = [str(c)[:200] for c in extra if ex.solver.check(zbool(neg), c) != z3.sat]
                print('MARGINS-UNSAT %s: %d/%d individually unsat: %s' % (label, len(bad), len(extra), bad[:4]))
            if extra and ex.solver.check(zbool(neg), *(small + extra)) == z3.sat:
                m = ex.solver.model()
            elif extra2 and ex.solver.check(zbool(neg), *(small + extra2)) == z3.sat:
                m = ex.solver.model()
            elif ex.solver.check(zbool(neg), *small) == z3.sat:
                m = ex.solver.model()
            else:
                # the preferences cannot all be met: keep greedily as many as are consistent (bounded effort), then the margins if possible
                kept = []
                for c in small[:40]:
                    if ex.solver.check(zbool(neg), *(kept + [c])) == z3.sat:
                        kept.append(c)
                for ext in (extra, extra2):
                    if ext and ex.solver.check(zbool(neg), *(kept + ext)) == z3.sat:
                        kept = kept + ext
                        break
                ex.solver.check(zbool(neg), *kept)
                m = ex.solver.model()
        desc = describe(m) if describe else {'model': str(m)[:2000]}
        # known findings: a finding is identified by (property, obligation prefix, label prefix, optional predicate id)
        for kf in self.chk.known_findings.get('findings', []):
            if kf.get('property') == self.chk.prop and kf.get('status', 'open') == 'open' \
               and self.name.startswith(kf.get('obligation', '')) and label.startswith(kf.get('assertion', '')):
                pred = kf.get('predicate')
                if pred is None or (known and known(pred, m, desc)):
                    msg = '%s [%s/%s]' % (kf['what'], self.name, label)
                    if msg not in self.chk.known:
                        self.chk.known.append(msg)
                    return False
        key = (label,)
        if key in self.seen_cex:
            return False
        self.seen_cex.add(key)
        path = None
        reproduced = None
        if replay is not None:
            with self.replay_budget.get_lock():
                left = self.replay_budget.value
                self.replay_budget.value -= 1
            if left <= 0:
                if left == 0:
                    self.inconclusive.append('further solver counterexamples of this obligation were not replayed (replay budget used up)')
                return False
            try:
                reproduced, path = replay(m, desc)
                self.chk.replayed += 1
            except Exception as e:
                self.inconclusive.append('replay machinery failed for %s: %s' % (label, traceback.format_exc(limit=4)))
                return False
            if not reproduced:
                self.seen_cex.discard(key)      # another path / model may still reproduce (the replay budget bounds the attempts)
                self.chk.modelgaps.append({'obligation': self.name, 'assertion': label, 'cex': desc})
                self.inconclusive.append('MODEL-GAP: solver counterexample for %s did not reproduce on the real build' % label)
                return False
        else:
            os.makedirs(os.path.join(VERIF, 'cex'), exist_ok=True)
            path = os.path.join(VERIF, 'cex', '%s-%s-%s.json' % (self.chk.prop, self.name.replace('/', '_'), label.replace('/', '_').replace(' ', '_')))
            with open(path, 'w') as f:
                json.dump({'property': self.chk.prop, 'obligation': self.name, 'assertion': label, 'cex': desc,
                           'note': 'solver counterexample (no concrete replay driver for this obligation)'}, f, indent=1, default=str)
        self.violations.append(Violation(self.name, label, desc, path, reproduced))
        return False
