"""environment models for the Go standard library and a few third-party leaf packages"""
import re
import z3
from .core import *

INTR = {}
PATS = []


def intr(*names):
    def d(f):
        for n in names:
            INTR[n] = f
        return f
    return d


def pat(rx):
    def d(f):
        PATS.append((re.compile(rx), f))
        return f
    return d


class PromObj(Opaque):
    """metrics objects: every method call chain is a no-op"""

    def __init__(self):
        Opaque.__init__(self, 'prom')

    def go_invoke(self, ex, method, args):
        return self


class GoError(Opaque):
    """an error value created by errors.New / fmt.Errorf / a model; identity matters, text is opaque"""

    def __init__(self, kind, msg=None, wraps=None, **kw):
        Opaque.__init__(self, kind, **kw)
        self.msg = msg
        self.wraps = wraps

    def go_invoke(self, ex, method, args):
        if method == 'Error':
            return self.msg if isinstance(self.msg, str) else 'error'
        if method == 'Unwrap':
            return self.wraps
        raise Unsupported('GoError.%s' % method)

    def go_implements(self, ex, at, need):
        return set(need) <= ({'Error', 'Unwrap'} if self.wraps is not None else {'Error'})

    def __repr__(self):
        return 'GoError(%s,%r)' % (self.kind, self.msg)


def mkerr(kind, msg=None, wraps=None, **kw):
    return Iface('err:' + kind, GoError(kind, msg, wraps, **kw))


@intr('errors.New')
def errors_new(ex, args, name):
    return mkerr('errors.New', args[0])


@intr('fmt.Errorf')
def fmt_errorf(ex, args, name):
    wraps = None
    if isinstance(args[1], Slice):
        for a in args[1].items():
            if isinstance(a, Iface) and isinstance(a.v, GoError):
                wraps = a
            elif isinstance(a, Iface) and a.t.startswith(('err:', '*')) and a.t != '*string':
                wraps = wraps or a
    fmtstr = args[0]
    if isinstance(fmtstr, str) and '%w' not in fmtstr:
        wraps = None
    return mkerr('fmt.Errorf', args[0], wraps)


@intr('fmt.Sprintf', 'fmt.Sprint', 'fmt.Sprintln')
def fmt_sprintf(ex, args, name):
    return ex.fresh('sprintf', 'str')


@intr('fmt.Fprintf', 'fmt.Printf', 'fmt.Println', 'fmt.Fprintln', 'fmt.Fprint')
def fmt_noop(ex, args, name):
    return (0, None)


def unwrap_chain(ex, e):
    seen = 0
    while e is not None and seen < 10:
        yield e
        seen += 1
        v = e.v if isinstance(e, Iface) else e
        if isinstance(v, GoError):
            e = v.wraps
        else:
            h = getattr(v, 'go_unwrap', None)
            if h:
                e = h(ex)
            elif isinstance(e, Iface) and 'Unwrap' in (ex.prog.msets.get(e.t) or {}):
                e = ex.call_named(ex.prog.msets[e.t]['Unwrap'], [e.v])
                if isinstance(e, Slice):
                    e = None
            else:
                e = None


@intr('errors.Is')
def errors_is(ex, args, name):
    err, target = args
    if err is None or target is None:
        return err is target
    for e in unwrap_chain(ex, err):
        r = ex.eq(e, target)
        if r is True:
            return True
        if r is not False:
            if ex.branch(r):
                return True
    return False


@intr('errors.As')
def errors_as(ex, args, name):
    err, target = args
    # target: interface holding a pointer to a variable of the wanted type
    if err is None:
        return False
    tt = target.t  # e.g. **ent.NotFoundError
    want = ex.prog.types[tt]['elem']
    for e in unwrap_chain(ex, err):
        if isinstance(e, Iface) and e.t == want:
            target.v.set(e.v)
            return True
        if isinstance(e, Iface) and ex.prog.under(want)['k'] == 'iface':
            ms = ex.prog.msets.get(e.t)
            need = ex.prog.under(want)['methods']
            if ms is not None and all(m in ms for m in need):
                target.v.set(e)
                return True
            h = getattr(e.v, 'go_implements', None)
            if h is not None and h(ex, want, need):
                target.v.set(e)
                return True
    return False


@intr('errors.Unwrap')
def errors_unwrap(ex, args, name):
    e = args[0]
    if e is None:
        return None
    v = e.v
    if isinstance(v, GoError):
        return v.wraps
    return None


@intr('errors.Join')
def errors_join(ex, args, name):
    its = [x for x in args[0].items() if x is not None]
    if not its:
        return None
    return mkerr('errors.Join', 'joined', its[0])


# ---- strings
@intr('strings.HasPrefix')
def strings_hasprefix(ex, args, name):
    s, p = args
    if isinstance(s, str) and isinstance(p, str):
        return s.startswith(p)
    return simp(z3.PrefixOf(zstr(p), zstr(s)))


@intr('strings.HasSuffix')
def strings_hassuffix(ex, args, name):
    s, p = args
    if isinstance(s, str) and isinstance(p, str):
        return s.endswith(p)
    return simp(z3.SuffixOf(zstr(p), zstr(s)))


@intr('strings.Contains')
def strings_contains(ex, args, name):
    s, p = args
    if isinstance(s, str) and isinstance(p, str):
        return p in s
    return simp(z3.Contains(zstr(s), zstr(p)))


@intr('strings.TrimSpace')
def strings_trimspace(ex, args, name):
    v = args[0]
    if isinstance(v, str):
        return v.strip(' \t\n\v\f\r\x85\xa0')
    if is_sym(v) and v.sort() == z3.StringSort():
        # s = lead + core + trail, lead/trail are ASCII white space, core neither starts nor ends with one (Unicode spaces are outside the model)
        ws = z3.Union(*[z3.Re(c) for c in ' \t\n\v\f\r'])
        lead, core, trail = ex.fresh('ws', 'str'), ex.fresh('trimmed', 'str'), ex.fresh('ws', 'str')
        ex.assume(z3.And(v == z3.Concat(lead, core, trail), z3.InRe(lead, z3.Star(ws)), z3.InRe(trail, z3.Star(ws)),
                         z3.Not(z3.InRe(core, z3.Concat(ws, z3.Full(z3.ReSort(z3.StringSort()))))),
                         z3.Not(z3.InRe(core, z3.Concat(z3.Full(z3.ReSort(z3.StringSort())), ws)))))
        return core
    raise Unsupported('strings.TrimSpace on %r' % (v,))


@intr('strings.TrimPrefix')
def strings_trimprefix(ex, args, name):
    s, p = args
    if isinstance(s, str) and isinstance(p, str):
        return s[len(p):] if s.startswith(p) else s
    s, p = zstr(s), zstr(p)
    return simp(z3.If(z3.PrefixOf(p, s), z3.SubString(s, z3.Length(p), z3.Length(s) - z3.Length(p)), s))


@intr('strings.ToLower')
def strings_lower(ex, args, name):
    s = args[0]
    if isinstance(s, str):
        return s.lower()
    raise Unsupported('strings.ToLower symbolic')


@intr('strings.Split')
def strings_split(ex, args, name):
    s, sep = args
    if isinstance(s, str) and isinstance(sep, str):
        return ex.mkslice(s.split(sep))
    # symbolic: fork on the number of parts; parts are fresh strings without the separator (word equation)
    if not isinstance(sep, str) or len(sep) != 1:
        raise Unsupported('strings.Split symbolic sep')
    s = zstr(s)
    sepv = z3.StringVal(sep)
    MAXP = 6
    for n in range(1, MAXP + 1):
        parts = [ex.fresh('part', 'str') for _ in range(n)]
        cat = parts[0]
        for p in parts[1:]:
            cat = z3.Concat(cat, sepv, p)
        cons = [s == cat] + [z3.Not(z3.Contains(p, sepv)) for p in parts]
        if n == MAXP:
            # MAXP or more parts: the tail part may itself contain separators
            cons = [s == cat] + [z3.Not(z3.Contains(p, sepv)) for p in parts[:-1]]
            ex.assume(z3.And(*cons))
            ex.env['split_truncated'] = True
            return ex.mkslice(parts)
        if ex.branch(z3.And(*cons)):
            return ex.mkslice(parts)
    raise Infeasible()


@intr('strings.Join')
def strings_join(ex, args, name):
    its, sep = args[0].items(), args[1]
    if not its:
        return ''
    r = its[0]
    for x in its[1:]:
        r = ex.binop('+', ex.binop('+', r, sep, 'string', 'string'), x, 'string', 'string')
    return r


@intr('strings.IndexByte', 'strings.Index')
def strings_index(ex, args, name):
    s, c = args
    if name.endswith('IndexByte'):
        c = chr(c) if isinstance(c, int) else z3.StrFromCode(c)
    if isinstance(s, str) and isinstance(c, str):
        return s.find(c)
    return simp(z3.IndexOf(zstr(s), zstr(c), 0))


# ---- sort
def sort_slice_impl(ex, sl, less):
    n = sl.len

    def swap(i, j):
        a = sl.arr.f
        a[sl.off + i], a[sl.off + j] = a[sl.off + j], a[sl.off + i]
    for i in range(1, n):
        j = i
        while j > 0 and ex.branch(ex.call_value(less, [j, j - 1])):
            swap(j, j - 1)
            j -= 1


@intr('sort.Slice', 'sort.SliceStable')
def sort_slice(ex, args, name):
    x, less = args
    sl = x.v if isinstance(x, Iface) else x
    if sl is None or sl.arr is None:
        return None
    sort_slice_impl(ex, sl, less)
    return None


@intr('sort.Strings')
def sort_strings(ex, args, name):
    sl = args[0]
    n = sl.len
    a = sl.arr.f
    for i in range(1, n):
        j = i
        while j > 0 and ex.branch(ex.binop('<', a[sl.off + j], a[sl.off + j - 1], 'string', 'bool')):
            a[sl.off + j], a[sl.off + j - 1] = a[sl.off + j - 1], a[sl.off + j]
            j -= 1
    return None


# ---- time
def clock(ex):
    c = ex.env.get('clock')
    if c is None:
        c = ex.env['clock'] = {'last': None, 'nows': []}
    return c


@intr('time.Now')
def time_now(ex, args, name):
    c = clock(ex)
    t = ex.fresh('now')
    lo = ex.env.get('now_lo', 10**18)           # ~2001
    hi = ex.env.get('now_hi', 4 * 10**18)        # ~2096
    ex.assume(z3.And(t >= lo, t <= hi))
    if c['last'] is not None:
        ex.assume(t >= c['last'])
    c['last'] = t
    c['nows'].append(t)
    return t


@intr('(time.Time).Add')
def time_add(ex, args, name):
    t, d = args
    if not is_sym(t) and not is_sym(d):
        return t + d
    return simp(t + d)


@intr('(time.Time).Truncate', '(time.Time).Round')
def time_truncate(ex, args, name):
    t, d = args
    if is_sym(d) or d <= 0:
        if not is_sym(d):
            return t
        raise Unsupported(name + ' with a symbolic unit')
    if 10**9 % d != 0 and d % 10**9 != 0:
        raise Unsupported(name + ' with a unit that does not divide / is no multiple of one second')
    if name.endswith('Round'):
        t2 = t + d // 2
        return simp(t2 - (t2 % d)) if is_sym(t2) else t2 - (t2 % d)
    # whole multiples since the zero time; for units dividing a second this is the same as for unix nanoseconds (floor)
    return simp(t - (t % d)) if is_sym(t) else t - (t % d)


@intr('(time.Time).Sub')
def time_sub(ex, args, name):
    a, b = args
    r = a - b
    if is_sym(r):
        r = simp(z3.If(r > 2**63 - 1, 2**63 - 1, z3.If(r < -2**63, -2**63, r)))
    return r


@intr('(time.Time).Before')
def time_before(ex, args, name):
    return ex.binop('<', args[0], args[1], 'int', 'bool')


@intr('(time.Time).After')
def time_after(ex, args, name):
    return ex.binop('>', args[0], args[1], 'int', 'bool')


@intr('(time.Time).Equal')
def time_equal(ex, args, name):
    return ex.eq(args[0], args[1])


@intr('(time.Time).Compare')
def time_compare(ex, args, name):
    a, b = args
    return Ite(ex.binop('<', a, b, 'int', 'bool'), -1, Ite(ex.binop('>', a, b, 'int', 'bool'), 1, 0))


@intr('(time.Time).IsZero')
def time_iszero(ex, args, name):
    return ex.eq(args[0], ZERO_TIME_NS)


@intr('(time.Time).UTC', '(time.Time).Local', '(time.Time).Round', '(time.Time).In')
def time_utc(ex, args, name):
    return args[0]


@intr('(time.Time).UnixNano')
def time_unixnano(ex, args, name):
    return args[0]


@intr('(time.Time).Unix')
def time_unix(ex, args, name):
    t = args[0]
    if not is_sym(t):
        return t // 10**9
    return simp(t / 10**9)     # z3 int division floors for positive divisor = Go's Unix()


@intr('(time.Time).Nanosecond')
def time_nanosecond(ex, args, name):
    t = args[0]
    if not is_sym(t):
        return t % 10**9
    return simp(t % 10**9)


@intr('time.Unix')
def time_unix_ctor(ex, args, name):
    s, n = args
    r = s * 10**9 + n
    return simp(r) if is_sym(r) else r


@intr('time.Until')
def time_until(ex, args, name):
    return time_sub(ex, [args[0], time_now(ex, [], '')], name)


@intr('time.Since')
def time_since(ex, args, name):
    return time_sub(ex, [time_now(ex, [], ''), args[0]], name)


@intr('time.After', 'time.NewTimer', 'time.NewTicker', 'time.Tick')
def time_after_chan(ex, args, name):
    ch = Chan(1, name='timer')
    ch.timer = args[0]
    return ch


@intr('time.Sleep')
def time_sleep(ex, args, name):
    return None


@intr('(time.Duration).Seconds')
def dur_seconds(ex, args, name):
    from . import fpmodel
    return fpmodel.dur_seconds(ex, args[0])


# ---- uuid
@intr('github.com/google/uuid.New', 'github.com/google/uuid.Must')
def uuid_new(ex, args, name):
    if name.endswith('Must'):
        return args[0]
    return ex.fresh_uuid('uuid')


@intr('github.com/google/uuid.NewRandom', 'github.com/google/uuid.NewUUID')
def uuid_newrandom(ex, args, name):
    return (ex.fresh_uuid('uuid'), None)


def uuid_str_fn():
    return z3.Function('uuid_str', z3.IntSort(), z3.StringSort())


def uuid_parse_fn():
    return z3.Function('uuid_parse', z3.StringSort(), z3.IntSort())


@intr('(github.com/google/uuid.UUID).String')
def uuid_string(ex, args, name):
    return UUIDStr(args[0])


@intr('github.com/google/uuid.Parse')
def uuid_parse(ex, args, name):
    if isinstance(args[0], UUIDStr):
        return (args[0].v, None)
    if isinstance(args[0], str):
        import uuid as _u
        try:
            return (_u.UUID(args[0]).int, None)
        except Exception:
            return (0, mkerr('uuid.Parse', 'invalid UUID'))
    s = zstr(args[0])
    v = uuid_parse_fn()(s)
    # uuid_parse(s) == -1 encodes "not a uuid"
    if ex.branch(v < 0):
        return (0, mkerr('uuid.Parse', 'invalid UUID'))
    ex.assume(z3.And(v >= 0, v < 2**128))
    return (simp(v), None)


@intr('go.6river.tech/mmmbbb/parse.UUIDLess')
def uuid_less(ex, args, name):
    return ex.binop('<', args[0], args[1], 'int', 'bool')


# ---- context
class GoContext(Opaque):
    def __init__(self, **kw):
        Opaque.__init__(self, 'context', **kw)
        self.done_ch = Chan(0, name='ctx.Done')

    def go_invoke(self, ex, method, args):
        if method == 'Done':
            return self.done_ch
        if method == 'Err':
            h = ex.env.get('ctx_err')
            return h(ex, self) if h else None
        if method == 'Value':
            return None
        if method == 'Deadline':
            return (ZERO_TIME_NS, False)
        raise Unsupported('context.' + method)


def new_context(ex):
    return Iface('context', GoContext())


@intr('context.Background', 'context.TODO')
def ctx_background(ex, args, name):
    return new_context(ex)


@intr('context.WithCancel', 'context.WithTimeout', 'context.WithDeadline')
def ctx_withcancel(ex, args, name):
    return (new_context(ex), PyFunc(lambda ex, a: None, 'cancel'))


@intr('context.WithValue')
def ctx_withvalue(ex, args, name):
    return args[0]


# ---- sync
@pat(r'^\(\*sync\.(RW)?Mutex\)\.(Lock|Unlock|RLock|RUnlock|TryLock)$')
def sync_mutex(ex, args, name):
    ex.events.append((name.split('.')[-1], args[0]))
    return None


@pat(r'^\(\*sync\.WaitGroup\)\.')
def sync_wg(ex, args, name):
    return None


@pat(r'^\(\*sync\.Once\)\.Do$')
def sync_once(ex, args, name):
    o = args[0]
    key = ('once', id(o.base if isinstance(o, Ptr) else o))
    if not ex.env.get(key):
        ex.env[key] = True
        ex.call_value(args[1], [])
    return None


# ---- misc opaque helpers
@pat(r'^\(\*?github\.com/rs/zerolog\.')
def zerolog_any(ex, args, name):
    return args[0] if args else None


@pat(r'^go\.6river\.tech/mmmbbb/logging\.')
def logging_any(ex, args, name):
    return Opaque('logger')


@pat(r'^\(\*?go\.6river\.tech/mmmbbb/logging\.')
def logging_meth(ex, args, name):
    return args[0]


@pat(r'^\(?\*?github\.com/prometheus/client_golang/prometheus(/promauto)?\.')
def prom_any(ex, args, name):
    return PromObj()


@intr('invoke:global.Inc', 'invoke:global.Add', 'invoke:global.Observe', 'invoke:global.Set')
def _unused(ex, args, name):
    return None


# ---- hash/crc32 (uninterpreted: only determinism and range matter)
class CRC(Opaque):
    def __init__(self):
        Opaque.__init__(self, 'crc32')
        self.parts = []

    def go_invoke(self, ex, method, args):
        if method == 'Write':
            b = args[0]
            self.parts.append(b.ident if isinstance(b, OpaqueBytes) else b)
            return (ex.length(b), None)
        if method == 'Sum32':
            f = z3.Function('crc32_%d' % len(self.parts), *([z3.IntSort()] * (len(self.parts) + 1)))
            v = f(*[zint(p) for p in self.parts])
            ex.assume(z3.And(v >= 0, v < 2**32))
            return v
        raise Unsupported('crc32.' + method)


@intr('hash/crc32.NewIEEE')
def crc32_new(ex, args, name):
    return Iface('crc32', CRC())


@intr('math.Pow')
def math_pow(ex, args, name):
    from . import fpmodel
    return fpmodel.go_pow(ex, args[0], args[1])


@intr('(time.Duration).Nanoseconds')
def dur_ns(ex, args, name):
    return args[0]


@intr('(time.Duration).Milliseconds')
def dur_ms(ex, args, name):
    return ex.binop('/', args[0], 10**6, 'int64', 'int64')


@intr('(time.Duration).Microseconds')
def dur_us(ex, args, name):
    return ex.binop('/', args[0], 10**3, 'int64', 'int64')


@intr('(time.Duration).String')
def dur_string(ex, args, name):
    return z3.Function('duration_string', z3.IntSort(), z3.StringSort())(zint(args[0]))


# ---- sync/atomic on plain cells (sequential harnesses; schedule-quantified checks override these)
@pat(r'^sync/atomic\.Load(Int32|Int64|Uint32|Uint64|Pointer)$')
def atomic_load(ex, args, name):
    ex.events.append(('atomic-load', args[0]))
    return ex.load(args[0])


@pat(r'^sync/atomic\.Store(Int32|Int64|Uint32|Uint64|Pointer)$')
def atomic_store(ex, args, name):
    ex.events.append(('atomic-store', args[0]))
    ex.store(args[0], args[1])
    return None


@pat(r'^sync/atomic\.Add(Int32|Int64|Uint32|Uint64)$')
def atomic_add(ex, args, name):
    ex.events.append(('atomic-add', args[0]))
    v = ex.binop('+', ex.load(args[0]), args[1], 'int64', 'int64')
    ex.store(args[0], v)
    return v


@pat(r'^sync/atomic\.CompareAndSwap(Int32|Int64|Uint32|Uint64)$')
def atomic_cas(ex, args, name):
    ex.events.append(('atomic-cas', args[0]))
    if ex.branch(ex.eq(ex.load(args[0]), args[1])):
        ex.store(args[0], args[2])
        return True
    return False


# ---- sync.Map: an association list per map value (keys compared with Go equality on interface values)
def _syncmap(ex, p):
    key = ('syncmap', id(p.base if isinstance(p, Ptr) else p), getattr(p, 'key', None))
    m = ex.env.get(key)
    if m is None:
        m = ex.env[key] = MapObj()
    return m


@intr('(*sync.Map).Load')
def syncmap_load(ex, args, name):
    m = _syncmap(ex, args[0])
    for k, v in m.ents:
        if ex.branch(ex.eq(k, args[1])):
            return (v, True)
    return (None, False)


@intr('(*sync.Map).Store')
def syncmap_store(ex, args, name):
    m = _syncmap(ex, args[0])
    for e in m.ents:
        if ex.branch(ex.eq(e[0], args[1])):
            e[1] = args[2]
            return None
    m.ents.append([args[1], args[2]])
    return None


@intr('(*sync.Map).LoadOrStore')
def syncmap_loadorstore(ex, args, name):
    v, ok = syncmap_load(ex, args[:2], name)
    if ok:
        return (v, True)
    syncmap_store(ex, args, name)
    return (args[2], False)


@intr('(*sync.Map).Delete')
def syncmap_delete(ex, args, name):
    m = _syncmap(ex, args[0])
    for i, (k, v) in enumerate(list(m.ents)):
        if ex.branch(ex.eq(k, args[1])):
            del m.ents[i]
            break
    return None


@intr('(*sync.Map).LoadAndDelete')
def syncmap_loadanddelete(ex, args, name):
    v, ok = syncmap_load(ex, args[:2], name)
    if ok:
        syncmap_delete(ex, args, name)
    return (v, ok)


@intr('(*sync.Map).Range')
def syncmap_range(ex, args, name):
    m = _syncmap(ex, args[0])
    for k, v in list(m.ents):
        if not ex.branch(ex.call_value(args[1], [k, v])):
            break
    return None


@intr('strings.IndexFunc', 'strings.ContainsFunc')
def strings_indexfunc(ex, args, name):
    s, f = args
    if isinstance(s, str):
        codes = [ord(c) for c in s]
    elif hasattr(s, 'codes'):
        codes = s.codes
    else:
        raise Unsupported(name + ' on a symbolic string')
    for i, c in enumerate(codes):
        if ex.branch(ex.call_value(f, [c])):
            return i if name.endswith('IndexFunc') else True
    return -1 if name.endswith('IndexFunc') else False
