"""one-step transition obligations on reldb with replay of counterexamples / witnesses on the real build"""
import z3, traceback
from .core import *
from . import reldb, stdlib, replay, world
from .world import *


def z3util_vars(f):
    from z3 import z3util
    try:
        return z3util.get_vars(f)
    except Exception:
        return []


class Step:
    def __init__(self, pre, post, args, nows, err, res, extra=None):
        self.pre, self.post, self.args, self.nows, self.err, self.res = pre, post, args, nows, err, res
        self.x = extra or {}


class Transition:
    """subclass and define: sizes, make_args(ex, db), call(ex, db, args)->(err,res), oracle(ex,S)->[(label,f)],
    to_ops(m, args)->[op...], res_from_replay(results, args_c)->res, conc_args(m, args)->args_c"""
    name = 'transition'
    sizes = {'Topic': 1, 'Subscription': 2, 'Message': 2, 'Delivery': 3}
    witness_count = 1
    strkeys = ('k',)
    thorough = False
    # parents always exist (their absence is covered by symbolic foreign keys / deleted flags); child rows may or may not exist
    exists = {'Topic': True, 'Subscription': True, 'Message': None, 'Delivery': None, 'Snapshot': None}
    dialect = 'sqlite3'

    def prepare_db(self, ex, db):
        pass

    def conc_args(self, m, args):
        out = {}
        for k, v in args.items():
            if isinstance(v, list):
                out[k] = [replay.mval(m, x) for x in v]
            elif isinstance(v, SymMap):
                out[k] = replay.conc_map(m, v, self.strkeys)
            elif isinstance(v, OpaqueBytes):
                out[k] = replay.payload_for(replay.mval(m, v.ident), replay.mval(m, v.len))
            else:
                out[k] = replay.mval(m, v)
        return out

    def res_from_replay(self, results, args_c, out):
        return results[-1].get('result') or {}

    def err_from_replay(self, results):
        return results[-1].get('err')

    # ---- symbolic side
    def harness(self, chk, prog):
        T = self
        T.thorough = chk.thorough
        T.prop = chk.prop
        if chk.thorough and getattr(T, 'sizes_thorough', None):
            T.sizes = T.sizes_thorough

        def h(ex, ob):
            db = reldb.sym_db(ex, prog, T.sizes, exists=T.exists)
            db.dialect = T.dialect
            T.prepare_db(ex, db)
            args = T.make_args(ex, db)
            if getattr(T, 'via_client', False):
                ex.env['via_client'] = True
            if getattr(T, 'fault_hook', None):
                ex.env['fault'] = T.fault_hook(ex)
            pre = db.snapshot()
            # replayable models: prefer small payloads (soft preference, not an assumption of the check)
            small = ex.env.setdefault('small_model', [])
            for rows in pre.values():
                for r in rows:
                    for v in r.v.values():
                        if isinstance(v, OpaqueBytes) and is_sym(v.len):
                            small.append(v.len <= 40)
            for v in args.values():
                if isinstance(v, OpaqueBytes) and is_sym(v.len):
                    small.append(v.len <= 40)
            # ... and durations that do not sit on a knife edge: retention / expiry of at least a minute, delivery delay zero or long
            for r in pre.get('Subscription', []):
                for cname in ('message_ttl', 'ttl'):
                    if is_sym(r.v.get(cname)):
                        small.append(r.v[cname] >= 60 * 10**9)
                if is_sym(r.v.get('delivery_delay')):
                    small.append(z3.Or(r.v['delivery_delay'] == 0, r.v['delivery_delay'] >= 60 * 10**9))
            # pin the uninterpreted filter predicates to the real semantics on a two-filter vocabulary (true facts, so sound to assume)
            flts = [r.v['filter'] for r in pre.get('Subscription', [])] + [args.get('filter')]
            amaps = [r.v['attributes'] for r in pre.get('Message', [])] + [v for k, v in args.items() if isinstance(v, SymMap) and k in ('attrs', 'attributes')]
            for ax in filter_axioms(flts, amaps):
                ex.assume(ax)
            small += filter_vocab_pref(flts)

            def margins(ex_, pre=pre, args=args, gap=60 * 10**9):
                # stored instants and time arguments lie at least a minute (second attempt: two seconds) away from the clock readings
                # of the step, and the step itself takes under a millisecond
                nows = stdlib.clock(ex_)['nows']
                if not nows:
                    return []
                cs = [nows[-1] - nows[0] <= 10**6]
                vals = []
                for e_, rows in pre.items():
                    for r in rows:
                        for c in ex_.xp.schema.ent[e_]:
                            if c.kind == 'time' and is_sym(r.v[c.name]):
                                vals.append(r.v[c.name])
                for k, v in args.items():
                    if k == 'time' and is_sym(v):
                        vals.append(v)
                for v in vals:
                    cs.append(z3.Or(v <= nows[0] - gap, v >= nows[-1] + gap))
                    if 'min_age' in args:
                        # age thresholds: nothing sits within the gap of "now - min_age" either
                        cs.append(z3.Or(v <= nows[0] - args['min_age'] - gap, v >= nows[-1] - args['min_age'] + gap))
                return cs
            ex.env['replay_margins'] = margins
            err, res = T.call(ex, db, args)
            S = Step(pre, db.t, args, list(stdlib.clock(ex)['nows']), err, res)
            S.events = ex.events

            def describe(m):
                return {'args': T.conc_args(m, args), 'pre': replay.rows_from_model(m, db.schema, pre, T.strkeys)}

            def mk_replay(label):
                def rp(m, desc):
                    return T.replay_check(chk, ob, prog, db.schema, m, S, label)
                return rp
            for label, f in T.oracle(ex, S):
                ob.verify(ex, label, f, describe, replay=(None if (getattr(T, 'no_replay', False) or not T.replayable(label)) else mk_replay(label)), known=getattr(T, 'known', None))
            # reachability witness, validated against the real build
            if len(ob.witnesses) < T.witness_count and ex.solver.check(*(ex.env.get('small_model', []) + margins(ex))) == z3.sat:
                m = ex.solver.model()
                try:
                    ob.witnesses.append(T.scenario(m, db.schema, S))
                except Exception as e:
                    ob.inconclusive.append('witness construction failed: %s' % traceback.format_exc(limit=3))
        return h

    def replayable(self, label):
        return True

    def scenario(self, m, schema, S):
        rows = replay.rows_from_model(m, schema, S.pre, self.strkeys)
        args_c = self.conc_args(m, S.args)
        nows = [replay.mval(m, t) for t in S.nows]
        base = nows[0] if nows else 2 * 10**18
        scn = {'base_now': str(base), 'rows': rows, 'ops': self.to_ops(args_c)}
        return {'scn': scn, 'args': args_c, 'n_nows': len(S.nows), 'rows': rows}

    def eval_concrete(self, prog, schema, w, out, want_label=None):
        """evaluate the oracle on the real post-state. returns dict label -> 'holds'|'violated'"""
        from .core import Explorer, Exec
        xp = Explorer(prog)
        reldb.install(xp, prog)
        ex = Exec(prog, xp, [])
        pre = replay.concrete_db(schema, out['pre'], w['rows'])
        post = replay.concrete_db(schema, out['post'], w['rows'])
        results = out['results']
        t0, t1 = int(results[0]['t0']), int(results[-1]['t1'])
        nows = [z3.Int('rnow%d' % i) for i in range(w['n_nows'])]
        cons = []
        for i, t in enumerate(nows):
            cons += [t >= t0, t <= t1]
            if i:
                cons.append(t >= nows[i - 1])
        err = self.err_from_replay(results)
        res = self.res_from_replay(results, w['args'], out)
        args = {k: v for k, v in w['args'].items()}
        S = Step(pre.t, post.t, self.args_to_model(args), nows, err, res)
        S.concrete = True
        flts = [r.v['filter'] for e_ in (pre, post) for r in e_.t.get('Subscription', [])] + [S.args.get('filter')]
        amaps = [r.v['attributes'] for e_ in (pre, post) for r in e_.t.get('Message', [])] + [v for k, v in S.args.items() if isinstance(v, SymMap)]
        cons += filter_axioms([f for f in flts if isinstance(f, str)], amaps)
        S.results = results
        verdicts = {}
        for label, f in self.oracle(ex, S):
            if want_label is not None and label != want_label:
                continue
            if verdicts.get(label) == 'violated':
                continue        # several formulas may share a label: one violated instance is enough
            s = z3.Solver()
            s.add(*cons)
            if f is True:
                verdicts.setdefault(label, 'holds')
                continue
            if f is False:
                verdicts[label] = 'violated'
                continue
            # oracle variables named probe_* are universally quantified (e.g. "at every later instant"); clock readings are existential
            probes = [v for v in z3util_vars(f) if v.decl().name().startswith('probe_')]
            s.add(z3.ForAll(probes, f) if probes else f)
            s.add(*backoff_axioms(f))
            verdicts[label] = 'holds' if s.check() == z3.sat else 'violated'
        return verdicts

    def args_to_model(self, args_c):
        """concrete args (as sent to replay) back into oracle vocabulary"""
        from .reldb import Col
        out = {}
        for k, v in args_c.items():
            if isinstance(v, dict):
                v = replay.conc_to_model(Col('', '', 'map', False, '', 0), v)
            elif k == 'payload' and isinstance(v, str):
                v = replay.conc_to_model(Col('', '', 'bytes', False, '', 0), v)
            out[k] = v
        return out

    def replay_check(self, chk, ob, prog, schema, m, S, label):
        w = self.scenario(m, schema, S)
        out = replay.run_scenarios([w['scn']])[0]
        path = replay.save_scenario(chk.prop, '%s-%s' % (ob.name, label), w['scn'], {'obligation': ob.name, 'assertion': label})
        if 'error' in out:
            raise RuntimeError('replay failed: ' + out['error'][-800:])
        v = self.eval_concrete(prog, schema, w, out, want_label=label)
        return (v.get(label) == 'violated'), path

    def validate_witnesses(self, chk, ob, prog, schema):
        if not ob.witnesses:
            return
        outs = replay.run_scenarios([w['scn'] for w in ob.witnesses])
        for w, out in zip(ob.witnesses, outs):
            if 'error' in out:
                ob.inconclusive.append('witness replay failed: ' + out['error'][-400:])
                continue
            chk.replayed += 1
            v = self.eval_concrete(prog, schema, w, out)
            if len(chk.samples) < 6:
                chk.samples.append({'obligation': ob.name, 'kind': 'reachability witness replayed on the real build (SQLite)',
                                    'operations': w['scn']['ops'], 'pre_state_rows': {e: len(r) for e, r in w['scn']['rows'].items()},
                                    'result': {k: x for k, x in (out['results'][-1] or {}).items() if k in ('err', 'result')},
                                    'oracle_on_real_post_state': {'assertions': len(v), 'violated': [l for l, x in v.items() if x == 'violated']}})
            bad = [l for l, x in v.items() if x == 'violated']
            if bad:
                # the model said these hold on this path; the real build disagrees => reldb model gap
                chk.modelgaps.append({'obligation': ob.name, 'assertions': bad, 'scenario': w['scn']})
                ob.inconclusive.append('MODEL-GAP: witness replay disagrees with the model on %s' % bad[:3])


def run_transition(chk, prog, T, setup2=None, **xopts):
    def setup(xp):
        world.setup(xp)
        if setup2:
            setup2(xp)
    ob = None

    def h(ex, ob_):
        return harness(ex, ob_)
    harness = T.harness(chk, prog)
    # Obligation gets a witnesses list
    from .runner import Obligation
    orig_init = Obligation.__init__
    ob = chk.run(T.name, prog, harness, bounds=dict(T.sizes, **getattr(T, 'bounds', {})), setup=setup,
                 pre_run=lambda o: setattr(o, 'witnesses', []), **xopts)
    if ob is None:      # filtered out (VERIF_ONLY)
        return None
    if not chk.no_replay:
        try:
            if getattr(ob, 'witnesses', None):
                T.validate_witnesses(chk, ob, prog, getattr(prog, '_schema', None) or reldb.Schema(prog))
        except Exception as e:
            ob.inconclusive.append('witness validation machinery failed: %s' % traceback.format_exc(limit=3))
            print('INCONCLUSIVE property=%s obligation=%s witness validation failed: %s' % (chk.prop, T.name, e))
    return ob
