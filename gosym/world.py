"""mmmbbb-specific harness helpers shared by the transition checks"""
import z3
from .core import *
from . import reldb, stdlib
from .reldb import ENTITIES, db_of
from .stdlib import new_context

A = 'go.6river.tech/mmmbbb/actions.'
ENT = reldb.ENT


def setup(xp):
    reldb.install(xp, xp.prog)


def val_eq(ex, a, b):
    if a is b:
        return True
    if isinstance(a, SymMap) and isinstance(b, SymMap):
        return And(simp(a.has == b.has), simp(a.val == b.val), ex.eq(a.nil, b.nil))
    if isinstance(a, OpaqueBytes) and isinstance(b, OpaqueBytes):
        return And(ex.eq(a.ident, b.ident), ex.eq(a.len, b.len))
    if isinstance(a, tuple) and isinstance(b, tuple):
        if len(a) != len(b):
            return False
        return And(*[val_eq(ex, x, y) for x, y in zip(a, b)])
    return ex.eq(a, b)


def col_eq(ex, pre, post, c):
    """column c equal in both row versions (NULL-aware)"""
    pn, qn = pre.isnull(c), post.isnull(c)
    if pn is False and qn is False:
        return val_eq(ex, pre.v[c], post.v[c])
    return And(ex.eq(pn, qn), Or(pn, val_eq(ex, pre.v[c], post.v[c])))


def row_same(ex, pre, post, except_cols=()):
    return And(ex.eq(pre.exists, post.exists),
               Implies(pre.exists, And(*[col_eq(ex, pre, post, c) for c in pre.v if c not in except_cols])))


def table_same(ex, pre_rows, post_rows):
    cs = []
    for i, p in enumerate(pre_rows):
        cs.append(row_same(ex, p, post_rows[i]))
    for q in post_rows[len(pre_rows):]:
        cs.append(Not(q.exists))
    return And(*cs)


def outstanding(r, t):
    """delivery row r is outstanding at time t"""
    return And(r.exists, r.isnull('completed_at'), r.v['expires_at'] > t)


def isin(ex, v, vals):
    return Or(*[ex.eq(v, x) for x in vals])


def sym_uuid_list(ex, name, n, db=None):
    """n arbitrary uuids (may or may not coincide with row ids, may repeat)"""
    out = []
    for i in range(n):
        v = z3.Int('%s%d' % (name, i))
        ex.assume(z3.And(v >= 0, v < 2**128))
        out.append(v)
    return out


def run_action(ex, db, ctor, ctor_args, execute, tx=None, ctx=None):
    """construct an action through its real constructor and run its real Execute inside a model tx"""
    act = ex.call_named(ctor, ctor_args)
    if tx is None:
        tx = reldb.begin_tx(ex, db)
    if ctx is None:
        ctx = new_context(ex)
    err = ex.call_named(execute, [act, ctx, tx])
    return act, tx, err


def model_values(m, rows_by_ent, cols=None):
    """concretise table rows under model m (for counterexample descriptions / replay)"""
    out = {}
    for e, rows in rows_by_ent.items():
        lst = []
        for r in rows:
            ex_ = m.eval(zbool(r.exists), model_completion=True)
            if not z3.is_true(ex_):
                continue
            d = {'slot': r.slot}
            for c, v in r.v.items():
                n = r.isnull(c)
                if n is not False and z3.is_true(m.eval(zbool(n), model_completion=True)):
                    d[c] = None
                    continue
                d[c] = conc(m, v)
            lst.append(d)
        out[e] = lst
    return out


def conc(m, v):
    if isinstance(v, SymMap):
        return {'has': str(m.eval(v.has, model_completion=True)), 'val': str(m.eval(v.val, model_completion=True))}
    if isinstance(v, OpaqueBytes):
        return {'bytes_id': conc(m, v.ident), 'len': conc(m, v.len)}
    if isinstance(v, tuple):
        return [conc(m, x) for x in v]
    if is_sym(v):
        r = m.eval(v, model_completion=True)
        if z3.is_int_value(r):
            return r.as_long()
        if z3.is_true(r):
            return True
        if z3.is_false(r):
            return False
        if z3.is_string_value(r):
            return r.as_string()
        return str(r)
    return v
