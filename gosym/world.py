"""mmmbbb-specific harness helpers shared by the transition checks"""
import z3
from .core import *
from . import reldb, stdlib
from .reldb import ENTITIES, db_of
from .stdlib import new_context

A = 'go.6river.tech/mmmbbb/actions.'
ENT = reldb.ENT


def setup(xp):
    reldb.install(xp, xp.prog)


def val_eq(ex, a, b):
    if a is b:
        return True
    if isinstance(a, SymMap) and isinstance(b, SymMap):
        return And(simp(a.has == b.has), simp(a.val == b.val), ex.eq(a.nil, b.nil))
    if isinstance(a, OpaqueBytes) and isinstance(b, OpaqueBytes):
        return And(ex.eq(a.ident, b.ident), ex.eq(a.len, b.len))
    if isinstance(a, tuple) and isinstance(b, tuple):
        if len(a) != len(b):
            return False
        return And(*[val_eq(ex, x, y) for x, y in zip(a, b)])
    return ex.eq(a, b)


def col_eq(ex, pre, post, c):
    """column c equal in both row versions (NULL-aware)"""
    pn, qn = pre.isnull(c), post.isnull(c)
    if pn is False and qn is False:
        return val_eq(ex, pre.v[c], post.v[c])
    return And(ex.eq(pn, qn), Or(pn, val_eq(ex, pre.v[c], post.v[c])))


def row_same(ex, pre, post, except_cols=()):
    return And(ex.eq(pre.exists, post.exists),
               Implies(pre.exists, And(*[col_eq(ex, pre, post, c) for c in pre.v if c not in except_cols])))


def table_same(ex, pre_rows, post_rows):
    cs = []
    for i, p in enumerate(pre_rows):
        cs.append(row_same(ex, p, post_rows[i]))
    for q in post_rows[len(pre_rows):]:
        cs.append(Not(q.exists))
    return And(*cs)


def outstanding(r, t):
    """delivery row r is outstanding at time t"""
    return And(r.exists, r.isnull('completed_at'), r.v['expires_at'] > t)


def isin(ex, v, vals):
    return Or(*[ex.eq(v, x) for x in vals])


def sym_uuid_list(ex, name, n, db=None):
    """n arbitrary uuids (may or may not coincide with row ids, may repeat)"""
    out = []
    for i in range(n):
        v = z3.Int('%s%d' % (name, i))
        ex.assume(z3.And(v >= 0, v < 2**128))
        out.append(v)
    return out


def run_action(ex, db, ctor, ctor_args, execute, tx=None, ctx=None):
    """construct an action through its real constructor and run its real Execute inside a model tx"""
    act = ex.call_named(ctor, ctor_args)
    if ctx is None:
        ctx = new_context(ex)
    if ex.env.get('via_client') and tx is None:
        # through the real transaction wrapper: client.DoCtxTx(ctx, nil, action.Execute)
        client = reldb.make_client(ex, db)
        fn = PyFunc(lambda ex_, a: ex_.call_named(execute, [act, a[0], a[1]]), 'Execute')
        err = ex.call_named('(*' + ENT + '.Client).DoCtxTx', [client, ctx, None, fn])
        fs = ex.env.get('fault_state')
        if fs is not None and ex.env.get('retry_after_fault'):
            fs['first_err'] = err
            fs['mid'] = db.snapshot()
            fs['mid_events'] = len(ex.events)
            fs['mid_nows'] = len(stdlib.clock(ex)['nows'])
            if fs.get('fired') is not None and err is not None:
                # retry the very same action object, now without a fault
                fs['disabled'] = True
                err = ex.call_named('(*' + ENT + '.Client).DoCtxTx', [client, ctx, None, fn])
        return act, None, err
    if tx is None:
        tx = reldb.begin_tx(ex, db)
    err = ex.call_named(execute, [act, ctx, tx])
    return act, tx, err


def model_values(m, rows_by_ent, cols=None):
    """concretise table rows under model m (for counterexample descriptions / replay)"""
    out = {}
    for e, rows in rows_by_ent.items():
        lst = []
        for r in rows:
            ex_ = m.eval(zbool(r.exists), model_completion=True)
            if not z3.is_true(ex_):
                continue
            d = {'slot': r.slot}
            for c, v in r.v.items():
                n = r.isnull(c)
                if n is not False and z3.is_true(m.eval(zbool(n), model_completion=True)):
                    d[c] = None
                    continue
                d[c] = conc(m, v)
            lst.append(d)
        out[e] = lst
    return out


def conc(m, v):
    if isinstance(v, SymMap):
        return {'has': str(m.eval(v.has, model_completion=True)), 'val': str(m.eval(v.val, model_completion=True))}
    if isinstance(v, OpaqueBytes):
        return {'bytes_id': conc(m, v.ident), 'len': conc(m, v.len)}
    if isinstance(v, tuple):
        return [conc(m, x) for x in v]
    if is_sym(v):
        r = m.eval(v, model_completion=True)
        if z3.is_int_value(r):
            return r.as_long()
        if z3.is_true(r):
            return True
        if z3.is_false(r):
            return False
        if z3.is_string_value(r):
            return r.as_string()
        return str(r)
    return v


# ---------------------------------------------------------------- environment models specific to mmmbbb
def F_matches():
    S = z3.StringSort()
    return z3.Function('filter_matches', S, z3.ArraySort(S, z3.BoolSort()), z3.ArraySort(S, S), z3.BoolSort())


def F_filter_valid():
    return z3.Function('filter_valid', z3.StringSort(), z3.BoolSort())


class ParsedFilter(Opaque):
    def __init__(self, src):
        Opaque.__init__(self, 'parsedfilter', src=src)


def intr_parse_string(ex, args, name):
    src = args[2]
    ok = F_filter_valid()(zstr(src))
    if ex.branch(ok):
        return (ParsedFilter(src), None)
    return (None, stdlib.mkerr('participle', 'filter parse error'))


def intr_condition_evaluate(ex, args, name):
    recv, attrs = args
    if isinstance(recv, ParsedFilter):
        if attrs is None:
            attrs = SymMap(z3.K(z3.StringSort(), z3.BoolVal(False)), z3.K(z3.StringSort(), z3.StringVal('')), nil=True)
        if isinstance(attrs, MapObj):
            from .reldb import go_to_col, Col
            _, attrs = go_to_col(ex, Col('Attributes', 'attributes', 'map', False, 'map[string]string', 0), attrs)
        return (F_matches()(zstr(recv.src), attrs.has, attrs.val), None)
    return ex.call_plain(name, args)


MIN_DEFAULT = 10 * 10**9
MAX_DEFAULT = 600 * 10**9


def F_nominal():
    return z3.Function('backoff_nominal', z3.IntSort(), z3.IntSort(), z3.IntSort(), z3.IntSort())


def F_fuzz():
    return z3.Function('backoff_fuzz', z3.IntSort(), z3.IntSort(), z3.IntSort())


def eff_backoff(ex, sub):
    """effective (min,max) backoff of an *ent.Subscription as NextDelayFor computes them"""
    def eff(p, dflt):
        if p is None:
            return dflt
        v = p.get()
        e = Ite(v > 0, v, dflt) if is_sym(v) else (v if v > 0 else dflt)
        if p.nilc is not None:
            e = Ite(p.nilc, dflt, e)
        return e
    return eff(ex.getf(sub, 'MinBackoff'), MIN_DEFAULT), eff(ex.getf(sub, 'MaxBackoff'), MAX_DEFAULT)


def intr_next_delay_contract(ex, args, name):
    """contract of NextDelayFor used by the transition checks; the contract itself is what C04 (backoff-function
    obligations) establishes on the real function: 0 <= nominal <= max'(1+1e-12)+2ns, 0 <= fuzz < 1s, deterministic"""
    sub, attempts = args
    ex.deref_check(sub, 'NextDelayFor')
    mn, mx = eff_backoff(ex, sub)
    nominal = F_nominal()(zint(mn), zint(mx), zint(attempts))
    fuzz = F_fuzz()(zint(ex.getf(sub, 'ID')), zint(attempts))
    ex.assume(z3.And(nominal >= 0, nominal <= zint(mx) + zint(mx) / 10**12 + 2, fuzz >= 0, fuzz < 10**9))
    ex.env.setdefault('backoffs', []).append((mn, mx, attempts, nominal, fuzz))
    # true facts about the real function on the default configuration and small attempt numbers (what C04 establishes), so that a
    # counterexample which depends on how long a lease is can be chosen replayable; preferred in replay models, see below
    from fractions import Fraction
    if not ex.env.get('backoff_facts'):
        ex.env['backoff_facts'] = True
        for k in range(0, 9):
            ref = min(Fraction(MAX_DEFAULT), Fraction(MIN_DEFAULT) * Fraction(11, 10) ** k)
            tol = ref / 10**12 + 2
            app = F_nominal()(z3.IntVal(MIN_DEFAULT), z3.IntVal(MAX_DEFAULT), z3.IntVal(k))
            ex.assume(z3.And(z3.ToReal(app) >= z3.RealVal(ref - tol), z3.ToReal(app) <= z3.RealVal(ref + tol)))
    pref = ex.env.get('small_model')
    if isinstance(pref, list):
        pref.append(z3.And(zint(mn) == MIN_DEFAULT, zint(mx) == MAX_DEFAULT, zint(attempts) >= 0, zint(attempts) <= 8))
    return (nominal, simp(nominal + fuzz))


def setup(xp, backoff_contract=True):     # noqa: F811  (extends the earlier definition)
    reldb.install(xp, xp.prog)
    xp.patterns.insert(0, (__import__('re').compile(r'^\(\*github\.com/alecthomas/participle/v2\.Parser\[.*\]\)\.ParseString$'), intr_parse_string))
    xp.intrinsics['(*go.6river.tech/mmmbbb/filter.Condition).Evaluate'] = intr_condition_evaluate
    if backoff_contract:
        xp.intrinsics[A + 'NextDelayFor'] = intr_next_delay_contract
    xp.merge_funcs.add('(*go.6river.tech/mmmbbb/ent.Subscription).HasFullDeadLetterConfig')


def action_results(ex, act):
    """*results struct of an action (or None)"""
    st = act.get() if isinstance(act, Ptr) else act
    while True:
        names = [f['name'] for f in ex.prog.under(st.t)['fields']]
        if 'results' in names:
            break
        st = st.f[0]       # embedded action base (pruneAction / actionBase)
    p = st.f[names.index('results')]
    return p


def opt_uuid_ptr(ex, present, v):
    return ex.new_ptr(v) if present else None


# facts about the real filter language for two concrete filters, so that counterexamples that depend on filtering can be replayed:
# the uninterpreted parser verdict / match predicate are pinned to the real semantics on this small vocabulary
REAL_FILTERS = [('attributes:k', lambda has: has), ('NOT attributes:k', lambda has: z3.Not(has))]


def filter_axioms(filters, maps):
    """filters: z3 string terms / python strs; maps: SymMaps"""
    out = []
    for f in filters:
        if f is None:
            continue
        fz = zstr(f)
        for src, sem in REAL_FILTERS:
            hit = fz == z3.StringVal(src) if is_sym(fz) else None
            if not is_sym(f):
                if f != src:
                    continue
                hit = True
            cs = [F_filter_valid()(z3.StringVal(src))]
            for a in maps:
                cs.append(F_matches()(z3.StringVal(src), a.has, a.val) == sem(z3.Select(a.has, z3.StringVal('k'))))
            out.append(z3.Implies(hit, z3.And(*cs)) if hit is not True else z3.And(*cs))
    return out


def filter_vocab_pref(filters):
    """soft preference for replay models: every filter is absent/empty or one of the real filters above"""
    out = []
    for f in filters:
        if f is not None and is_sym(f):
            out.append(z3.Or(f == '', *[f == src for src, _ in REAL_FILTERS]))
    return out


def backoff_axioms(formula):
    """for every application backoff_nominal(min,max,n) / backoff_fuzz(id,n) with numeral arguments inside `formula`, the facts C04
    establishes on the real NextDelayFor: nominal = min(max, min*1.1^n) up to 1e-12 relative + 2ns, 0 <= fuzz < 1s
    (used when an oracle is evaluated on a concrete replay state, where the functions would otherwise be unconstrained)"""
    from fractions import Fraction
    out, seen = [], set()

    def walk(e):
        if not z3.is_app(e):
            return
        k = e.get_id()
        if k in seen:
            return
        seen.add(k)
        nm = e.decl().name()
        if nm == 'backoff_nominal' and all(z3.is_int_value(a) for a in e.children()):
            mn, mx, n = [a.as_long() for a in e.children()]
            if 0 <= n < 2000:
                ref = min(Fraction(mx), Fraction(mn) * Fraction(11, 10) ** n)
                tol = ref / 10**12 + 2
                out.append(z3.And(z3.ToReal(e) >= z3.RealVal(ref - tol), z3.ToReal(e) <= z3.RealVal(ref + tol)))
        if nm == 'backoff_fuzz':
            out.append(z3.And(e >= 0, e < 10**9))
        for c in e.children():
            walk(c)
    if is_sym(formula):
        walk(formula)
    return out


# ---- closures of a function, addressed by what they do and bound by free-variable name (robust against re-numbering / re-ordering)
def find_closure(prog, parent, must_call):
    """the unique direct closure parent$N whose body calls every name in must_call (substring of the callee / method name)"""
    import json as _json, re as _re
    found = []
    for n, f in prog.funcs.items():
        if not (n.startswith(parent + '$') and n[len(parent) + 1:].isdigit()):
            continue
        if '_calls' not in f:
            f['_calls'] = set(_re.findall(r'"(?:method|fn)": "([^"]+)"', _json.dumps(f['blocks'])))
        if all(any(m in c for c in f['_calls']) for m in must_call):
            found.append(n)
    if len(found) != 1:
        raise Unsupported('closure of %s calling %s: %d candidates' % (parent.split('/')[-1], must_call, len(found)))
    return found[0]


def bind_closure(ex, fn, **byname):
    """Closure(fn) with its free variables bound by name; a free variable the harness does not know makes the obligation inconclusive"""
    b = []
    for fv in ex.prog.funcs[fn]['freevars']:
        if fv['name'] not in byname:
            raise Unsupported('closure %s captures %s, which the harness does not provide' % (fn.split('/')[-1], fv['name']))
        b.append(byname[fv['name']])
    return Closure(fn, b)
