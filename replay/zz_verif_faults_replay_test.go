// replay driver of /verif for package faults, injected with `go test -overlay` (never part of /repo).
// It realises one schedule class of the C18 obligation "prune against a concurrent Add": an Add for the same operation arriving while
// prune is at work.  The scan is made long (many exhausted descriptions) and prune is caught in the act through the lock.
package faults

import (
	"encoding/json"
	"os"
	"runtime"
	"strconv"
	"testing"
	"time"
)

func TestVerifFaultsReplay(t *testing.T) {
	outPath := os.Getenv("VERIF_FAULTS_OUT")
	if outPath == "" {
		t.Skip("no scenario")
	}
	exhausted := 200000
	if v, err := strconv.Atoi(os.Getenv("VERIF_FAULTS_EXHAUSTED")); err == nil && v > 0 {
		exhausted = v
	}
	live, _ := strconv.Atoi(os.Getenv("VERIF_FAULTS_LIVE"))
	conclusive, lost, liveLost := 0, 0, 0
	for n := 0; n < 12 && conclusive < 3; n++ {
		s := NewSet(t.Name() + strconv.Itoa(n))
		l := make([]*Description, 0, exhausted+live)
		for i := 0; i < live; i++ {
			l = append(l, &Description{Operation: "op", Count: 1, FaultDescription: "live"})
		}
		for i := 0; i < exhausted; i++ {
			l = append(l, &Description{Operation: "op", Count: 0})
		}
		s.faults["op"] = l
		pruned := make(chan struct{})
		go func() {
			defer close(pruned)
			s.prune()
		}()
		busy := false
	WAIT:
		for {
			select {
			case <-pruned:
				break WAIT
			default:
			}
			if s.mu.TryLock() {
				s.mu.Unlock()
				runtime.Gosched()
				continue
			}
			busy = true
			break
		}
		if !busy {
			continue
		}
		conclusive++
		s.Add(Description{Operation: "op", Count: 1, FaultDescription: "added"})
		select {
		case <-pruned:
		case <-time.After(20 * time.Second):
			t.Fatal("prune did not finish")
		}
		added, lives := 0, 0
		for _, d := range s.Current()["op"] {
			if d.FaultDescription == "added" {
				added++
			}
			if d.FaultDescription == "live" {
				lives++
			}
		}
		if added != 1 {
			lost++
		}
		if lives != live {
			liveLost++
		}
	}
	b, _ := json.Marshal(map[string]int{"conclusive": conclusive, "add_lost": lost, "live_lost": liveLost})
	if err := os.WriteFile(outPath, b, 0o644); err != nil {
		t.Fatal(err)
	}
}
