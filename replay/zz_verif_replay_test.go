// Replay driver for solver counterexamples and reachability witnesses.  This file is NOT part of
// /repo: it is injected into package services with `go test -overlay` by /verif/gosym/replay.py.
// It builds the table state described by a JSON scenario on a fresh SQLite database through the
// real ent client, runs the listed operations through the real actions / gRPC handlers, and
// dumps results and the resulting table state as JSON.
package services

import (
	"context"
	stdsql "database/sql"
	"database/sql/driver"
	"encoding/json"
	"errors"
	"fmt"
	"math/big"
	"os"
	"path"
	"reflect"
	"strings"
	"sync"
	"testing"
	"time"

	"entgo.io/ent/dialect"
	entsql "entgo.io/ent/dialect/sql"
	"github.com/google/uuid"
	"google.golang.org/grpc"
	"google.golang.org/grpc/credentials/insecure"
	"google.golang.org/grpc/status"
	"google.golang.org/protobuf/encoding/protojson"
	"google.golang.org/protobuf/proto"
	"google.golang.org/protobuf/types/known/timestamppb"

	"go.6river.tech/mmmbbb/actions"
	"go.6river.tech/mmmbbb/db"
	"go.6river.tech/mmmbbb/defaults"
	"go.6river.tech/mmmbbb/ent"
	"go.6river.tech/mmmbbb/internal"
	"go.6river.tech/mmmbbb/ent/enttest"
	"go.6river.tech/mmmbbb/filter"
	"go.6river.tech/mmmbbb/grpc/pubsubpb"
	"go.6river.tech/mmmbbb/internal/sqltypes"
	"go.6river.tech/mmmbbb/logging"
)

type vScenario struct {
	Fault   bool                        `json:"fault"`
	Wire    bool                        `json:"wire"`
	BaseNow string                      `json:"base_now"`
	Rows    map[string][]map[string]any `json:"rows"`
	Ops     []map[string]any            `json:"ops"`
}

type vCtx struct {
	conn     *grpc.ClientConn
	history  []map[string]any
	t        *testing.T
	client   *ent.Client
	realBase time.Time
	baseNow  *big.Int
}

func (v *vCtx) toReal(x any) time.Time {
	s := fmt.Sprint(x)
	n, ok := new(big.Int).SetString(s, 10)
	if !ok {
		v.t.Fatalf("bad time %v", x)
	}
	d := new(big.Int).Sub(n, v.baseNow)
	if !d.IsInt64() {
		v.t.Fatalf("time offset out of range %v", x)
	}
	return v.realBase.Add(time.Duration(d.Int64()))
}

func (v *vCtx) toModel(t time.Time) string {
	d := t.Sub(v.realBase)
	return new(big.Int).Add(v.baseNow, big.NewInt(int64(d))).String()
}

func vInt(x any) int64 {
	switch n := x.(type) {
	case float64:
		return int64(n)
	case string:
		b, _ := new(big.Int).SetString(n, 10)
		return b.Int64()
	case json.Number:
		i, _ := n.Int64()
		return i
	}
	return 0
}

// ids are literal uuids or references "$<op index>.<k>" to the k-th delivery returned by an earlier pull
func (v *vCtx) vUUIDs(x any) []uuid.UUID {
	var out []uuid.UUID
	if x == nil {
		return out
	}
	for _, s := range x.([]any) {
		str := s.(string)
		if strings.HasPrefix(str, "$") {
			var oi, k int
			fmt.Sscanf(str, "$%d.%d", &oi, &k)
			r, _ := v.history[oi]["result"].(map[string]any)
			ds, _ := r["deliveries"].([]map[string]any)
			if k < len(ds) {
				out = append(out, uuid.MustParse(ds[k]["id"].(string)))
			}
			continue
		}
		out = append(out, uuid.MustParse(str))
	}
	return out
}

func vStrMap(x any) map[string]string {
	if x == nil {
		return nil
	}
	m := map[string]string{}
	for k, val := range x.(map[string]any) {
		m[k] = val.(string)
	}
	return m
}

var vTimeCols = map[string]bool{"created_at": true, "deleted_at": true, "expires_at": true, "published_at": true,
	"attempt_at": true, "last_attempted_at": true, "completed_at": true, "acked_messages_before": true}
var vIntervalCols = map[string]bool{"ttl": true, "message_ttl": true, "min_backoff": true, "max_backoff": true, "delivery_delay": true}
var vJSONCols = map[string]bool{"labels": true, "attributes": true, "acked_message_ids": true}
var vTables = map[string]string{"Topic": "topics", "Subscription": "subscriptions", "Message": "messages", "Delivery": "deliveries", "Snapshot": "snapshots"}

func (v *vCtx) insertRows(ctx context.Context, sc *vScenario) {
	db := v.client.DB()
	var fixups [][2]string
	for _, e := range []string{"Topic", "Subscription", "Message", "Delivery", "Snapshot"} {
		for _, row := range sc.Rows[e] {
			var cols []string
			var args []any
			for c, val := range row {
				if c == "slot" {
					continue
				}
				if e == "Delivery" && c == "not_before_id" && val != nil {
					fixups = append(fixups, [2]string{row["id"].(string), val.(string)})
					continue
				}
				cols = append(cols, "`"+c+"`")
				switch {
				case val == nil:
					args = append(args, nil)
				case vTimeCols[c]:
					args = append(args, v.toReal(val))
				case vIntervalCols[c]:
					args = append(args, sqltypes.Interval(vInt(val)))
				case vJSONCols[c]:
					b, _ := json.Marshal(val)
					args = append(args, b)
				case c == "payload":
					args = append(args, []byte(val.(string)))
				default:
					switch x := val.(type) {
					case float64:
						args = append(args, int64(x))
					default:
						args = append(args, x)
					}
				}
			}
			q := fmt.Sprintf("INSERT INTO `%s` (%s) VALUES (%s)", vTables[e], strings.Join(cols, ","), strings.TrimSuffix(strings.Repeat("?,", len(cols)), ","))
			if _, err := db.ExecContext(ctx, q, args...); err != nil {
				v.t.Fatalf("insert %s %v: %v", e, row, err)
			}
		}
	}
	for _, f := range fixups {
		if _, err := db.ExecContext(ctx, "UPDATE deliveries SET not_before_id = ? WHERE id = ?", f[1], f[0]); err != nil {
			v.t.Fatalf("fixup: %v", err)
		}
	}
}

func (v *vCtx) tp(t *time.Time) any {
	if t == nil {
		return nil
	}
	return v.toModel(*t)
}

func ivp(i *sqltypes.Interval) any {
	if i == nil {
		return nil
	}
	return int64(*i)
}

func (v *vCtx) dump(ctx context.Context) map[string][]map[string]any {
	out := map[string][]map[string]any{}
	ts, err := v.client.Topic.Query().All(ctx)
	if err != nil {
		v.t.Fatal(err)
	}
	for _, r := range ts {
		out["Topic"] = append(out["Topic"], map[string]any{"id": r.ID.String(), "name": r.Name, "created_at": v.toModel(r.CreatedAt),
			"live": r.Live, "deleted_at": v.tp(r.DeletedAt), "labels": r.Labels})
	}
	ss, err := v.client.Subscription.Query().All(ctx)
	if err != nil {
		v.t.Fatal(err)
	}
	for _, r := range ss {
		var dlt any
		if r.DeadLetterTopicID != nil {
			dlt = r.DeadLetterTopicID.String()
		}
		out["Subscription"] = append(out["Subscription"], map[string]any{"id": r.ID.String(), "topic_id": r.TopicID.String(), "name": r.Name,
			"created_at": v.toModel(r.CreatedAt), "expires_at": v.toModel(r.ExpiresAt), "live": r.Live, "deleted_at": v.tp(r.DeletedAt),
			"ttl": int64(r.TTL), "message_ttl": int64(r.MessageTTL), "ordered_delivery": r.OrderedDelivery, "labels": r.Labels,
			"min_backoff": ivp(r.MinBackoff), "max_backoff": ivp(r.MaxBackoff), "push_endpoint": r.PushEndpoint, "filter": r.MessageFilter,
			"max_delivery_attempts": r.MaxDeliveryAttempts, "dead_letter_topic_id": dlt, "delivery_delay": int64(r.DeliveryDelay)})
	}
	ms, err := v.client.Message.Query().All(ctx)
	if err != nil {
		v.t.Fatal(err)
	}
	for _, r := range ms {
		out["Message"] = append(out["Message"], map[string]any{"id": r.ID.String(), "topic_id": r.TopicID.String(), "payload": string(r.Payload),
			"attributes": r.Attributes, "published_at": v.toModel(r.PublishedAt), "order_key": r.OrderKey})
	}
	ds, err := v.client.Delivery.Query().All(ctx)
	if err != nil {
		v.t.Fatal(err)
	}
	for _, r := range ds {
		var nb any
		if r.NotBeforeID != uuid.Nil {
			nb = r.NotBeforeID.String()
		}
		out["Delivery"] = append(out["Delivery"], map[string]any{"id": r.ID.String(), "message_id": r.MessageID.String(),
			"subscription_id": r.SubscriptionID.String(), "published_at": v.toModel(r.PublishedAt), "attempt_at": v.toModel(r.AttemptAt),
			"last_attempted_at": v.tp(r.LastAttemptedAt), "attempts": r.Attempts, "completed_at": v.tp(r.CompletedAt),
			"expires_at": v.toModel(r.ExpiresAt), "not_before_id": nb})
	}
	sn, err := v.client.Snapshot.Query().All(ctx)
	if err != nil {
		v.t.Fatal(err)
	}
	for _, r := range sn {
		ids := []string{}
		for _, i := range r.AckedMessageIDs {
			ids = append(ids, i.String())
		}
		out["Snapshot"] = append(out["Snapshot"], map[string]any{"id": r.ID.String(), "topic_id": r.TopicID.String(), "name": r.Name,
			"created_at": v.toModel(r.CreatedAt), "expires_at": v.toModel(r.ExpiresAt), "labels": r.Labels,
			"acked_messages_before": v.toModel(r.AckedMessagesBefore), "acked_message_ids": ids})
	}
	return out
}

type vExec interface {
	Execute(context.Context, *ent.Tx) error
}

func optUUID(x any) *uuid.UUID {
	if x == nil {
		return nil
	}
	u := uuid.MustParse(x.(string))
	return &u
}

func optStr(x any) string {
	if x == nil {
		return ""
	}
	return x.(string)
}

// ---- storage fault injection (C09): a database/sql driver wrapping the SQLite driver that fails, or cancels the request at, one
// chosen step of the armed operation: BEGIN, the k-th statement, or COMMIT
type vFaultCtl struct {
	mu     sync.Mutex
	armed  bool
	kind   string // "error" | "cancel"
	at     string // "begin" | "stmt" | "commit"
	idx    int
	n      int
	fired  bool
	cancel func()
}

var vfault vFaultCtl
var vfaultOnce sync.Once
var errVInjected = errors.New("verif: injected storage failure")

func (f *vFaultCtl) step(what string) error {
	f.mu.Lock()
	defer f.mu.Unlock()
	if !f.armed || f.fired {
		return nil
	}
	if what == "stmt" {
		f.n++
	}
	if what != f.at || (what == "stmt" && f.n != f.idx) {
		return nil
	}
	f.fired = true
	if f.kind == "cancel" {
		if f.cancel != nil {
			f.cancel()
		}
		return context.Canceled
	}
	return errVInjected
}

type vFaultDriver struct{ base driver.Driver }

func (d *vFaultDriver) Open(dsn string) (driver.Conn, error) {
	c, err := d.base.Open(dsn)
	if err != nil {
		return nil, err
	}
	return &vFaultConn{c}, nil
}

type vFaultConn struct{ driver.Conn }

func (c *vFaultConn) ExecContext(ctx context.Context, q string, args []driver.NamedValue) (driver.Result, error) {
	e, ok := c.Conn.(driver.ExecerContext)
	if !ok {
		return nil, driver.ErrSkip
	}
	if err := vfault.step("stmt"); err != nil {
		return nil, err
	}
	return e.ExecContext(ctx, q, args)
}

func (c *vFaultConn) QueryContext(ctx context.Context, q string, args []driver.NamedValue) (driver.Rows, error) {
	e, ok := c.Conn.(driver.QueryerContext)
	if !ok {
		return nil, driver.ErrSkip
	}
	if err := vfault.step("stmt"); err != nil {
		return nil, err
	}
	return e.QueryContext(ctx, q, args)
}

func (c *vFaultConn) PrepareContext(ctx context.Context, q string) (driver.Stmt, error) {
	if p, ok := c.Conn.(driver.ConnPrepareContext); ok {
		return p.PrepareContext(ctx, q)
	}
	return c.Conn.Prepare(q)
}

func (c *vFaultConn) BeginTx(ctx context.Context, opts driver.TxOptions) (driver.Tx, error) {
	if err := vfault.step("begin"); err != nil {
		return nil, err
	}
	var tx driver.Tx
	var err error
	if b, ok := c.Conn.(driver.ConnBeginTx); ok {
		tx, err = b.BeginTx(ctx, opts)
	} else {
		tx, err = c.Conn.Begin() //nolint
	}
	if err != nil {
		return nil, err
	}
	return &vFaultTx{tx}, nil
}

func (c *vFaultConn) Ping(ctx context.Context) error {
	if p, ok := c.Conn.(driver.Pinger); ok {
		return p.Ping(ctx)
	}
	return nil
}

func (c *vFaultConn) ResetSession(ctx context.Context) error {
	if p, ok := c.Conn.(driver.SessionResetter); ok {
		return p.ResetSession(ctx)
	}
	return nil
}

type vFaultTx struct{ driver.Tx }

func (t *vFaultTx) Commit() error {
	if err := vfault.step("commit"); err != nil {
		_ = t.Tx.Rollback()
		return err
	}
	return t.Tx.Commit()
}

func vFaultClient(t *testing.T) *ent.Client {
	vfaultOnce.Do(func() {
		base, err := stdsql.Open(db.SQLiteDriverName, db.SQLiteDSN(path.Join(t.TempDir(), "probe"), true, false))
		if err != nil {
			t.Fatal(err)
		}
		stdsql.Register("verif_fault", &vFaultDriver{base: base.Driver()})
		_ = base.Close()
	})
	conn, err := db.Open("verif_fault", dialect.SQLite, db.SQLiteDSN(path.Join(t.TempDir(), "verif_fault"), true, false))
	if err != nil {
		t.Fatal(err)
	}
	return enttest.ClientForTest(t, ent.Driver(entsql.OpenDB(dialect.SQLite, conn)))
}

type vStreamStep struct {
	req       *actions.MessageStreamRequest
	afterSent int
}

// vStreamConn is a scripted actions.StreamConnection
type vStreamConn struct {
	mu     sync.Mutex
	first  *actions.MessageStreamRequest
	script []vStreamStep
	next   int
	sent   []map[string]any
}

func (c *vStreamConn) Close() error { return nil }

func (c *vStreamConn) Receive(ctx context.Context) (*actions.MessageStreamRequest, error) {
	c.mu.Lock()
	if c.first != nil {
		r := c.first
		c.first = nil
		c.mu.Unlock()
		return r, nil
	}
	c.mu.Unlock()
	deadline := time.Now().Add(1500 * time.Millisecond)
	for {
		c.mu.Lock()
		if c.next < len(c.script) && (len(c.sent) >= c.script[c.next].afterSent || time.Now().After(deadline)) {
			r := c.script[c.next].req
			c.next++
			c.mu.Unlock()
			return r, nil
		}
		c.mu.Unlock()
		select {
		case <-ctx.Done():
			return nil, ctx.Err()
		case <-time.After(5 * time.Millisecond):
		}
	}
}

func (c *vStreamConn) Send(ctx context.Context, d *actions.SubscriptionMessageDelivery) error {
	c.mu.Lock()
	defer c.mu.Unlock()
	c.sent = append(c.sent, map[string]any{"id": d.ID.String(), "message_id": d.MessageID.String(), "bytes": len(d.Payload)})
	return nil
}

// runOp executes one operation; panics are caught and reported (that is what C16 looks for)
func (v *vCtx) runOp(ctx context.Context, op map[string]any) (res map[string]any) {
	res = map[string]any{"op": op["op"]}
	defer func() {
		if r := recover(); r != nil {
			res["panic"] = fmt.Sprint(r)
		}
	}()
	res["t0"] = v.toModel(time.Now())
	defer func() { res["t1"] = v.toModel(time.Now()) }()
	if f, ok := op["fault"].(map[string]any); ok {
		// one injected storage failure / cancellation inside this operation (needs scenario.fault = true)
		cctx, cancel := context.WithCancel(ctx)
		defer cancel()
		ctx = cctx
		vfault.mu.Lock()
		vfault.armed, vfault.fired, vfault.n = true, false, 0
		vfault.kind, vfault.at, vfault.idx, vfault.cancel = f["kind"].(string), f["at"].(string), int(vInt(f["idx"])), cancel
		vfault.mu.Unlock()
		defer func() {
			vfault.mu.Lock()
			res["fault_fired"] = vfault.fired
			vfault.armed = false
			vfault.mu.Unlock()
		}()
	}
	var act vExec
	var results func() any
	prune := func() actions.PruneCommonParams {
		return actions.PruneCommonParams{MinAge: time.Duration(vInt(op["min_age"])), MaxDelete: int(vInt(op["max_delete"]))}
	}
	switch op["op"] {
	case "ack":
		a := actions.NewAckDeliveries(v.vUUIDs(op["ids"])...)
		act, results = a, func() any { r, _ := a.Results(); return r }
	case "nack":
		a := actions.NewNackDeliveries(v.vUUIDs(op["ids"])...)
		act, results = a, func() any { r, _ := a.Results(); return r }
	case "delay":
		a := actions.NewDelayDeliveries(actions.DelayDeliveriesParams{IDs: v.vUUIDs(op["ids"]), Delay: time.Duration(vInt(op["delay"]))})
		act, results = a, func() any { r, _ := a.Results(); return r }
	case "publish":
		a := actions.NewPublishMessage(actions.PublishMessageParams{TopicName: optStr(op["topic_name"]), TopicID: optUUID(op["topic_id"]),
			Payload: json.RawMessage(optStr(op["payload"])), Attributes: vStrMap(op["attributes"]), OrderKey: optStr(op["order_key"])})
		act, results = a, func() any {
			r, ok := a.Results()
			if !ok {
				return nil
			}
			return map[string]any{"ID": r.ID.String(), "NumDeliveries": r.NumDeliveries}
		}
	case "pull":
		p := actions.GetSubscriptionMessagesParams{Name: optStr(op["name"]), ID: optUUID(op["id"]), MaxMessages: int(vInt(op["max_messages"])),
			MaxBytes: int(vInt(op["max_bytes"])), MaxWait: time.Duration(vInt(op["max_wait"]))}
		if b, ok := op["max_bytes_strict"].(bool); ok {
			p.MaxBytesStrict = b
		}
		a := actions.NewGetSubscriptionMessages(p)
		err := a.ExecuteClient(ctx, v.client)
		if err != nil {
			res["err"] = err.Error()
		}
		if r, ok := a.Results(); ok {
			ds := []map[string]any{}
			for _, d := range r.Deliveries {
				ds = append(ds, map[string]any{"id": d.ID.String(), "message_id": d.MessageID.String(), "num_attempts": d.NumAttempts,
					"order_key": d.OrderKey, "payload": string(d.Payload), "attributes": d.Attributes,
					"published_at": v.toModel(d.PublishedAt), "next_attempt_at": v.toModel(d.NextAttemptAt)})
			}
			res["result"] = map[string]any{"deliveries": ds, "num_dead_lettered": r.NumDeadLettered}
		}
		return
	case "seek_time":
		a := actions.NewSeekSubscriptionToTime(actions.SeekSubscriptionToTimeParams{Name: optStr(op["name"]), ID: optUUID(op["id"]), Time: v.toReal(op["time"])})
		act, results = a, func() any { r, _ := a.Results(); return r }
	case "seek_snapshot":
		a := actions.NewSeekSubscriptionToSnapshot(actions.SeekSubscriptionToSnapshotParams{SubscriptionName: optStr(op["subscription_name"]),
			SubscriptionID: optUUID(op["subscription_id"]), SnapshotName: optStr(op["snapshot_name"]), SnapshotID: optUUID(op["snapshot_id"])})
		act, results = a, func() any { r, _ := a.Results(); return r }
	case "create_snapshot":
		a := actions.NewCreateSnapshot(actions.CreateSnapshotParams{SubscriptionName: optStr(op["subscription_name"]), Name: optStr(op["name"]), Labels: vStrMap(op["labels"])})
		act, results = a, func() any {
			r, ok := a.Results()
			if !ok {
				return nil
			}
			return map[string]any{"SnapshotID": r.SnapshotID.String()}
		}
	case "create_topic":
		a := actions.NewCreateTopic(actions.CreateTopicParams{Name: optStr(op["name"]), Labels: vStrMap(op["labels"])})
		act, results = a, func() any {
			r, ok := a.Results()
			if !ok {
				return nil
			}
			return map[string]any{"ID": r.ID.String()}
		}
	case "delete_topic":
		a := actions.NewDeleteTopic(optStr(op["name"]))
		act, results = a, func() any { r, _ := a.Results(); return r }
	case "delete_subscription":
		a := actions.NewDeleteSubscription(optStr(op["name"]))
		act, results = a, func() any { r, _ := a.Results(); return r }
	case "create_subscription":
		p := actions.CreateSubscriptionParams{TopicName: optStr(op["topic_name"]), Name: optStr(op["name"]), TTL: time.Duration(vInt(op["ttl"])),
			MessageTTL: time.Duration(vInt(op["message_ttl"])), Labels: vStrMap(op["labels"]), PushEndpoint: optStr(op["push_endpoint"]),
			MinBackoff: time.Duration(vInt(op["min_backoff"])), MaxBackoff: time.Duration(vInt(op["max_backoff"])), Filter: optStr(op["filter"]),
			MaxDeliveryAttempts: int32(vInt(op["max_delivery_attempts"])), DeadLetterTopic: optStr(op["dead_letter_topic"])}
		if b, ok := op["ordered_delivery"].(bool); ok {
			p.OrderedDelivery = b
		}
		a := actions.NewCreateSubscription(p)
		act, results = a, func() any {
			r, ok := a.Results()
			if !ok {
				return nil
			}
			return map[string]any{"ID": r.ID.String()}
		}
	case "deadletter_sweep":
		a := actions.NewDeadLetterDeliveries(actions.DeadLetterDeliveriesParams{MaxDeliveries: int(vInt(op["max"]))})
		act, results = a, func() any { r, _ := a.Results(); return r }
	case "prune_completed_deliveries":
		a := actions.NewPruneCompletedDeliveries(prune())
		act, results = a, func() any { r, _ := a.Results(); return r }
	case "prune_expired_deliveries":
		a := actions.NewPruneExpiredDeliveries(prune())
		act, results = a, func() any { r, _ := a.Results(); return r }
	case "prune_completed_messages":
		a := actions.NewPruneCompletedMessages(prune())
		act, results = a, func() any { r, _ := a.Results(); return r }
	case "prune_deleted_subscription_deliveries":
		a := actions.NewPruneDeletedSubscriptionDeliveries(prune())
		act, results = a, func() any { r, _ := a.Results(); return r }
	case "prune_deleted_subscriptions":
		a := actions.NewPruneDeletedSubscriptions(prune())
		act, results = a, func() any { r, _ := a.Results(); return r }
	case "prune_deleted_topics":
		a := actions.NewPruneDeletedTopics(prune())
		act, results = a, func() any { r, _ := a.Results(); return r }
	case "delete_expired_subscriptions":
		a := actions.NewDeleteExpiredSubscriptions(prune())
		act, results = a, func() any { r, _ := a.Results(); return r }
	case "prune_rounds_reused":
		// the background services build each job's action object once and execute the same object every round: first one round, then the
		// clock moves on by shift_after_first, then `rounds` more rounds
		p := prune()
		jobs := []vExec{}
		for _, j := range op["jobs"].([]any) {
			switch j.(string) {
			case "prune_completed_deliveries":
				jobs = append(jobs, actions.NewPruneCompletedDeliveries(p))
			case "prune_expired_deliveries":
				jobs = append(jobs, actions.NewPruneExpiredDeliveries(p))
			case "prune_completed_messages":
				jobs = append(jobs, actions.NewPruneCompletedMessages(p))
			case "prune_deleted_subscription_deliveries":
				jobs = append(jobs, actions.NewPruneDeletedSubscriptionDeliveries(p))
			case "prune_deleted_subscriptions":
				jobs = append(jobs, actions.NewPruneDeletedSubscriptions(p))
			case "prune_deleted_topics":
				jobs = append(jobs, actions.NewPruneDeletedTopics(p))
			}
		}
		errs := 0
		round := func() {
			for _, j := range jobs {
				if err := v.client.DoCtxTx(ctx, nil, j.Execute); err != nil {
					errs++
				}
			}
		}
		round()
		d := time.Duration(vInt(op["shift_after_first"]))
		if d <= 10*time.Second {
			// really wait: moving the stored timestamps instead of the clock would hide state an action object keeps about "now"
			time.Sleep(d)
		} else {
			v.realBase = v.realBase.Add(-d)
			v.shiftAll(ctx, d)
		}
		for i := 0; i < int(vInt(op["rounds"])); i++ {
			round()
		}
		res["job_errors"] = errs
		return
	case "notify_wake":
		// waiters[i] publish awaiters on subscription i; then WakePublishListeners(false, wake...)
		var subs []uuid.UUID
		var chans [][]actions.PublishNotifier
		for i, n := range op["waiters"].([]any) {
			id := uuid.MustParse(fmt.Sprintf("00000000-0000-0000-0000-%012d", i+1))
			subs = append(subs, id)
			var cs []actions.PublishNotifier
			for k := 0; k < int(vInt(n)); k++ {
				cs = append(cs, actions.PublishAwaiter(id))
			}
			chans = append(chans, cs)
		}
		var wake []uuid.UUID
		for _, w := range op["wake"].([]any) {
			wake = append(wake, subs[int(vInt(w))])
		}
		actions.WakePublishListeners(false, wake...)
		closed := [][]bool{}
		for i, cs := range chans {
			row := []bool{}
			for _, c := range cs {
				select {
				case <-c:
					row = append(row, true)
				default:
					row = append(row, false)
					actions.CancelPublishAwaiter(subs[i], c)
				}
			}
			closed = append(closed, row)
		}
		res["closed"] = closed
		return
	case "http_push_go":
		// run the push streamer of a subscription for a short while (a panic on one of its goroutines kills the process)
		id := uuid.MustParse(op["subscription_id"].(string))
		sub, err := v.client.Subscription.Get(ctx, id)
		if err != nil {
			v.t.Fatal(err)
		}
		cctx, cancel := context.WithTimeout(ctx, time.Duration(vInt(op["timeout_ms"]))*time.Millisecond)
		defer cancel()
		p := actions.NewHttpPusher(sub.Name, sub.ID, *sub.PushEndpoint, nil, v.client)
		if err := p.Go(cctx); err != nil {
			res["err"] = err.Error()
		}
		return
	case "stream":
		// the real MessageStreamer.Go against a scripted connection: the opening flow-control request, then the scripted requests
		// (each released once `after_sent` messages have been sent, or after 1.5 s), then silence until the time is up
		id := uuid.MustParse(op["subscription_id"].(string))
		fc := op["flow"].(map[string]any)
		conn := &vStreamConn{first: &actions.MessageStreamRequest{FlowControl: &actions.FlowControl{MaxMessages: int(vInt(fc["max_messages"])), MaxBytes: int(vInt(fc["max_bytes"]))}}}
		if rs, ok := op["requests"].([]any); ok {
			for _, r := range rs {
				rm := r.(map[string]any)
				conn.script = append(conn.script, vStreamStep{req: &actions.MessageStreamRequest{Ack: v.vUUIDs(rm["ack"]), Nack: v.vUUIDs(rm["nack"])}, afterSent: int(vInt(rm["after_sent"]))})
			}
		}
		cctx, cancel := context.WithTimeout(ctx, time.Duration(vInt(op["duration_ms"]))*time.Millisecond)
		defer cancel()
		ms := &actions.MessageStreamer{Client: v.client, Logger: logging.GetLogger("verif/stream"), SubscriptionID: &id, AutomaticNack: op["automatic_nack"] == true}
		if err := ms.Go(cctx, conn); err != nil {
			res["err"] = err.Error()
		}
		conn.mu.Lock()
		res["sent"] = conn.sent
		res["requests_delivered"] = conn.next
		conn.mu.Unlock()
		return
	case "http_pusher_round":
		// one round of the background http-pusher service on this goroutine (in the server it runs outside every interceptor:
		// a panic there ends the process); the pushers it starts are cancelled right away
		cctx, cancel := context.WithCancel(ctx)
		hp := &httpPusher{}
		if err := hp.Initialize(cctx, v.client); err != nil {
			v.t.Fatal(err)
		}
		defer func() {
			cancel()
			for _, mon := range hp.pushers {
				mon.cancel()
				_ = mon.Wait()
			}
		}()
		if err := hp.startPushersOnce(cctx); err != nil {
			res["err"] = err.Error()
		}
		res["pushers"] = len(hp.pushers)
		return
	case "parse_interval":
		d, err := sqltypes.ParsePostgreSQLInterval(op["s"].(string))
		if err != nil {
			res["err"] = err.Error()
		}
		res["ns"] = fmt.Sprint(int64(d))
		var iv sqltypes.Interval
		if v, ok := op["roundtrip_ns"]; ok {
			val, _ := sqltypes.Interval(vInt(v)).Value()
			res["text"] = fmt.Sprint(val)
			if err := iv.Scan(val); err != nil {
				res["scan_err"] = err.Error()
			}
			res["scanned_ns"] = fmt.Sprint(int64(iv))
		}
		return
	case "filter_roundtrip":
		src := op["src"].(string)
		f, err := filter.Parser.ParseString("replay", src)
		if err != nil {
			res["parse_err"] = err.Error()
			return
		}
		var sb strings.Builder
		if err := f.AsFilter(&sb); err != nil {
			res["print_err"] = err.Error()
			return
		}
		res["printed"] = sb.String()
		if _, err := filter.Parser.ParseString("replay", sb.String()); err != nil {
			res["reparse_err"] = err.Error()
		}
		return
	case "dump":
		res["state"] = v.dump(ctx)
		return
	case "shift":
		// advance the clock by delta: move every stored timestamp back
		d := time.Duration(vInt(op["delta"]))
		v.realBase = v.realBase.Add(-d)
		v.shiftAll(ctx, d)
		return
	case "grpc":
		v.grpcOp(ctx, op, res)
		return
	default:
		v.t.Fatalf("unknown op %v", op["op"])
	}
	err := v.client.DoCtxTx(ctx, nil, act.Execute)
	if err != nil {
		res["err"] = err.Error()
	}
	if results != nil {
		if r := results(); r != nil {
			b, _ := json.Marshal(r)
			var m any
			_ = json.Unmarshal(b, &m)
			res["result"] = m
		}
	}
	return
}

func (v *vCtx) shiftAll(ctx context.Context, d time.Duration) {
	// timestamps are stored as text by the sqlite driver; rewrite them through ent
	tx, err := v.client.Tx(ctx)
	if err != nil {
		v.t.Fatal(err)
	}
	defer tx.Rollback()
	ds, _ := tx.Delivery.Query().All(ctx)
	for _, r := range ds {
		u := tx.Delivery.UpdateOne(r).SetAttemptAt(r.AttemptAt.Add(-d)).SetExpiresAt(r.ExpiresAt.Add(-d)).SetPublishedAt(r.PublishedAt.Add(-d))
		if r.CompletedAt != nil {
			u = u.SetCompletedAt(r.CompletedAt.Add(-d))
		}
		if r.LastAttemptedAt != nil {
			u = u.SetLastAttemptedAt(r.LastAttemptedAt.Add(-d))
		}
		if err := u.Exec(ctx); err != nil {
			v.t.Fatal(err)
		}
	}
	db := tx.DBTx()
	_ = db
	if err := tx.Commit(); err != nil {
		v.t.Fatal(err)
	}
	// remaining tables via raw SQL on re-encoded values
	raw := v.client.DB()
	type upd struct {
		table, col string
	}
	for _, u := range []upd{{"subscriptions", "expires_at"}, {"subscriptions", "deleted_at"}, {"subscriptions", "created_at"},
		{"topics", "deleted_at"}, {"topics", "created_at"}, {"messages", "published_at"},
		{"snapshots", "created_at"}, {"snapshots", "expires_at"}, {"snapshots", "acked_messages_before"}} {
		rows, err := raw.QueryContext(ctx, fmt.Sprintf("SELECT id, `%s` FROM `%s` WHERE `%s` IS NOT NULL", u.col, u.table, u.col))
		if err != nil {
			v.t.Fatal(err)
		}
		type pair struct {
			id string
			t  time.Time
		}
		var ps []pair
		for rows.Next() {
			var p pair
			if err := rows.Scan(&p.id, &p.t); err != nil {
				v.t.Fatal(err)
			}
			ps = append(ps, p)
		}
		rows.Close()
		for _, p := range ps {
			if _, err := raw.ExecContext(ctx, fmt.Sprintf("UPDATE `%s` SET `%s` = ? WHERE id = ?", u.table, u.col), p.t.Add(-d), p.id); err != nil {
				v.t.Fatal(err)
			}
		}
	}
}

func (v *vCtx) grpcOp(ctx context.Context, op map[string]any, res map[string]any) {
	var srv any
	switch op["service"] {
	case "subscriber":
		srv = &subscriberServer{client: v.client}
	default:
		srv = &publisherServer{client: v.client}
	}
	m := reflect.ValueOf(srv).MethodByName(op["method"].(string))
	if !m.IsValid() {
		v.t.Fatalf("no method %v", op["method"])
	}
	reqT := m.Type().In(1).Elem()
	req := reflect.New(reqT)
	if !(op["nil_request"] == true) {
		b, _ := json.Marshal(op["request"])
		if err := (protojson.UnmarshalOptions{DiscardUnknown: true}).Unmarshal(b, req.Interface().(proto.Message)); err != nil {
			v.t.Fatalf("bad request json: %v", err)
		}
	}
	if mt, ok := op["seek_time_model"]; ok {
		// a seek time given on the model's clock: translate it to the replay's clock like every stored timestamp
		if sr, ok := req.Interface().(*pubsubpb.SeekRequest); ok {
			sr.Target = &pubsubpb.SeekRequest_Time{Time: timestamppb.New(v.toReal(mt))}
		}
	}
	cctx := ctx
	if ms := vInt(op["timeout_ms"]); ms > 0 {
		var cancel context.CancelFunc
		cctx, cancel = context.WithTimeout(ctx, time.Duration(ms)*time.Millisecond)
		defer cancel()
	}
	var outs []reflect.Value
	if v.conn != nil {
		// over the wire: through the real server with its interceptor chain
		svcName := "google.pubsub.v1.Publisher"
		if op["service"] == "subscriber" {
			svcName = "google.pubsub.v1.Subscriber"
		}
		resp := reflect.New(m.Type().Out(0).Elem())
		err := v.conn.Invoke(cctx, "/"+svcName+"/"+op["method"].(string), req.Interface(), resp.Interface())
		if err != nil {
			outs = []reflect.Value{reflect.Zero(m.Type().Out(0)), reflect.ValueOf(&err).Elem()}
		} else {
			outs = []reflect.Value{resp, reflect.Zero(reflect.TypeOf((*error)(nil)).Elem())}
		}
	} else {
		outs = m.Call([]reflect.Value{reflect.ValueOf(cctx), req})
	}
	if !outs[1].IsNil() {
		err := outs[1].Interface().(error)
		res["err"] = err.Error()
		if st, ok := status.FromError(err); ok {
			res["code"] = st.Code().String()
		} else {
			res["code"] = "NOT-A-STATUS"
		}
	} else {
		res["code"] = "OK"
	}
	if !outs[0].IsNil() {
		if pm, ok := outs[0].Interface().(proto.Message); ok {
			b, err := protojson.Marshal(pm)
			if err == nil {
				var mm any
				_ = json.Unmarshal(b, &mm)
				res["response"] = mm
			}
		}
	}
}

func TestVerifReplay(t *testing.T) {
	files := os.Getenv("VERIF_SCENARIOS")
	if files == "" {
		t.Skip("no scenarios")
	}
	for _, f := range strings.Split(files, ":") {
		f := f
		t.Run("scn", func(t *testing.T) {
			b, err := os.ReadFile(f)
			if err != nil {
				t.Fatal(err)
			}
			var sc vScenario
			dec := json.NewDecoder(strings.NewReader(string(b)))
			dec.UseNumber()
			if err := dec.Decode(&sc); err != nil {
				t.Fatal(err)
			}
			// re-decode ops/rows with plain numbers for convenience
			_ = json.Unmarshal(b, &sc)
			ctx := context.Background()
			var client *ent.Client
			var conn *grpc.ClientConn
			if sc.Wire {
				client = initGrpcService(t, []ReadyCheck{mockReady{nil}})
				port := internal.ResolvePort(defaults.Port, defaults.GRPCOffset)
				var err error
				conn, err = grpc.NewClient(fmt.Sprintf("localhost:%d", port), grpc.WithTransportCredentials(insecure.NewCredentials()))
				if err != nil {
					t.Fatal(err)
				}
				defer conn.Close()
			} else if sc.Fault {
				client = vFaultClient(t)
			} else {
				client = enttest.ClientForTest(t)
			}
			bn, _ := new(big.Int).SetString(sc.BaseNow, 10)
			v := &vCtx{t: t, client: client, realBase: time.Now(), baseNow: bn, conn: conn}
			v.insertRows(ctx, &sc)
			out := map[string]any{"pre": v.dump(ctx)}
			var results []map[string]any
			for _, op := range sc.Ops {
				// observe wake-ups: a publish awaiter per subscription, registered before the operation
				subs, _ := v.client.Subscription.Query().IDs(ctx)
				waiters := map[uuid.UUID]actions.PublishNotifier{}
				for _, id := range subs {
					waiters[id] = actions.PublishAwaiter(id)
				}
				r := v.runOp(ctx, op)
				woken := []string{}
				for id, ch := range waiters {
					select {
					case <-ch:
						woken = append(woken, id.String())
					default:
						actions.CancelPublishAwaiter(id, ch)
					}
				}
				r["woken"] = woken
				v.history = append(v.history, r)
				results = append(results, r)
			}
			out["results"] = results
			out["post"] = v.dump(ctx)
			ob, _ := json.MarshalIndent(out, "", " ")
			if err := os.WriteFile(f+".out", ob, 0o644); err != nil {
				t.Fatal(err)
			}
		})
	}
}
