#!/bin/bash
# run every registered check (quick by default) and print one summary line per property
cd "$(dirname "$0")"
tier=${1:-quick}
for id in $(python3 -c "import json;print(' '.join(c['property_id'] for c in json.load(open('MANIFEST.json'))['checks']))"); do
  t0=$(date +%s)
  mkdir -p scratch
  out=$(timeout ${VERIF_RUN_TIMEOUT:-3000} ./check $id $tier 2>&1); code=$?
  echo "$out" > scratch/run_${tier}_$id.log
  echo "$id exit=$code $(( $(date +%s) - t0 ))s $(echo "$out" | grep -c '^VIOLATION') violations $(echo "$out" | grep -c '^INCONCLUSIVE') inconclusive-lines $(echo "$out" | grep -c '^KNOWN-FINDING') known"
  echo "$out" | grep '^INCONCLUSIVE' | sed 's/obligation=[^ ]* //' | sort | uniq -c | sort -rn | head -3 | cut -c1-220
done
