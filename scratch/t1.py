import sys,time
sys.path.insert(0,'/verif')
sys.argv=['x','quick']
import checks.c07 as c
from gosym.runner import *
chk=Check('C07'); prog=load_program()
shapes=list(c.gen_conds(1,2))+list(c.gen_conds(2,2))+list(c.gen_conds(3,2))
for sh in shapes[:4]+shapes[16:19]+shapes[60:64]:
    def h(ex,ob,sh=sh):
        attrs=c.sym_attrs(); b=c.Build(ex,attrs); cc,ref=b.cond(sh)
        r,err=ex.call_named('(*'+c.F+'Condition).Evaluate',[cc,attrs])
        ob.verify(ex,'eq',simp(zbool(r)==ref))
    ob=chk.run(c.show(sh),prog,h)
    print(ob.xp.nqueries, round(ob.xp.solver_time,2), round(ob.solver_time,2))
