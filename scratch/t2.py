import sys,time
sys.path.insert(0,'/verif')
sys.argv=['x','quick']
import checks.c07 as c
from gosym.runner import *
chk=Check('C07'); prog=load_program()
sh=('cond',('term','has'),None,[])
def h(ex,ob):
    attrs=c.sym_attrs(); b=c.Build(ex,attrs); cc,ref=b.cond(sh)
    r,err=ex.call_named('(*'+c.F+'Condition).Evaluate',[cc,attrs])
    print('r=',r,'ref=',ref,'pc=',ex.pc, 'dec', ex.dec, ex.solver.check(), ex.solver.assertions())
    ob.verify(ex,'eq',simp(zbool(r)==ref))
ob=chk.run('x',prog,h)
