import sys; sys.path.insert(0,'/verif')
from gosym import replay
import time
t0=time.time()
scn={'base_now':'2000000000000000000','rows':{'Topic':[{'id':replay.uuid_str(1),'name':'projects/p/topics/t','created_at':'1999999999000000000','live':True,'deleted_at':None,'labels':{}}],
 'Subscription':[{'id':replay.uuid_str(2),'topic_id':replay.uuid_str(1),'name':'projects/p/subscriptions/s','created_at':'1999999999000000000','expires_at':'2000000999000000000','live':True,'deleted_at':None,'ttl':'60000000000','message_ttl':'60000000000','ordered_delivery':False,'labels':{},'min_backoff':None,'max_backoff':None,'push_endpoint':None,'filter':None,'max_delivery_attempts':None,'dead_letter_topic_id':None,'delivery_delay':'0'}],
 'Message':[{'id':replay.uuid_str(3),'topic_id':replay.uuid_str(1),'payload':'"hi"','attributes':{'a':'b'},'published_at':'1999999999000000000','order_key':None}],
 'Delivery':[{'id':replay.uuid_str(4),'message_id':replay.uuid_str(3),'subscription_id':replay.uuid_str(2),'published_at':'1999999999000000000','attempt_at':'1999999999000000000','last_attempted_at':None,'attempts':0,'completed_at':None,'expires_at':'2000000999000000000','not_before_id':None}]},
 'ops':[{'op':'ack','ids':[replay.uuid_str(4)]},{'op':'pull','id':replay.uuid_str(2),'max_messages':5,'max_bytes':1000,'max_wait':'50000000'}]}
out=replay.run_scenarios([scn])
import json; print(json.dumps(out)[:3500]); print(time.time()-t0)
