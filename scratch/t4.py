import sys,time,os
sys.path.insert(0,'/verif')
os.environ['VERIF_NO_REPLAY']='1'
from gosym.runner import *
from gosym.step import run_transition
import checks.transitions as tr
chk=Check('CXX',argv=['quick']); prog=load_program()
only=sys.argv[1:] 
for T in tr.all_transitions():
    if only and T.name not in only: continue
    T.oracle=lambda ex,S: [('reach',True)]
    ob=run_transition(chk,prog,T,max_paths=200000,setup2=lambda xp: setattr(xp,'profile_forks',True))
    for k,v in sorted(ob.xp.fork_sites.items(),key=lambda kv:-kv[1])[:25]: print('   FORK',v,k)
    for k,v in list(ob.xp.unsupported.items())[:4]: print('   UNSUP',v,k[:200])
