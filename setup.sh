#!/bin/bash
# offline setup: build the SSA exporter, warm the Go build cache for the replay driver
set -e
cd "$(dirname "$0")"
export PATH=/opt/veriftools/go1.26.8/bin:$PATH
( cd ssaexport && GOTOOLCHAIN=local GOFLAGS=-mod=mod GOPROXY=off GOSUMDB=off go build -o ../bin/ssaexport . )
mkdir -p .cache evidence cex
# warm: export once and compile the replay test binary once
python3-vt - <<'PY'
import sys
sys.path.insert(0, '.')
from gosym.runner import load_program
from gosym import replay
load_program()
print(replay.run_scenarios([{'base_now': '2000000000000000000', 'rows': {}, 'ops': []}])[0].keys())
PY
