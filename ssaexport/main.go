// ssaexport dumps the go/ssa form of the functions reachable from a set of
// root packages of /repo as JSON, for the Python symbolic executor (gosym).
package main

import (
	"encoding/json"
	"flag"
	"fmt"
	"go/constant"
	"go/token"
	"go/types"
	"os"
	"sort"
	"strings"

	"golang.org/x/tools/go/packages"
	"golang.org/x/tools/go/ssa"
	"golang.org/x/tools/go/ssa/ssautil"
)

type J = map[string]any

var (
	typeTab  = map[string]J{}
	typeSeen = map[string]bool{}
	prog     *ssa.Program
	follow   []string
	nofollow []string
	work     []*ssa.Function
	seenFn   = map[*ssa.Function]bool{}
	msetDone = map[string]bool{}
	msets    = map[string]map[string]string{}
	builtPkg = map[*ssa.Package]bool{}
)

func qual(p *types.Package) string { return p.Path() }

// deepUnalias resolves type aliases inside composite types too, so that one type has one name
func deepUnalias(t types.Type) types.Type {
	t = types.Unalias(t)
	switch u := t.(type) {
	case *types.Pointer:
		if e := deepUnalias(u.Elem()); e != u.Elem() {
			return types.NewPointer(e)
		}
	case *types.Slice:
		if e := deepUnalias(u.Elem()); e != u.Elem() {
			return types.NewSlice(e)
		}
	case *types.Array:
		if e := deepUnalias(u.Elem()); e != u.Elem() {
			return types.NewArray(e, u.Len())
		}
	case *types.Map:
		k, e := deepUnalias(u.Key()), deepUnalias(u.Elem())
		if k != u.Key() || e != u.Elem() {
			return types.NewMap(k, e)
		}
	case *types.Chan:
		if e := deepUnalias(u.Elem()); e != u.Elem() {
			return types.NewChan(u.Dir(), e)
		}
	case *types.Tuple:
		changed := false
		vars := make([]*types.Var, u.Len())
		for i := 0; i < u.Len(); i++ {
			v := u.At(i)
			nt := deepUnalias(v.Type())
			if nt != v.Type() {
				changed = true
				v = types.NewVar(v.Pos(), v.Pkg(), v.Name(), nt)
			}
			vars[i] = v
		}
		if changed {
			return types.NewTuple(vars...)
		}
	case *types.Signature:
		p, r := deepUnalias(u.Params()), deepUnalias(u.Results())
		if p != types.Type(u.Params()) || r != types.Type(u.Results()) {
			return types.NewSignatureType(u.Recv(), nil, nil, p.(*types.Tuple), r.(*types.Tuple), u.Variadic())
		}
	}
	return t
}

func tstr(t types.Type) string {
	t = deepUnalias(t)
	s := types.TypeString(t, qual)
	if !typeSeen[s] {
		typeSeen[s] = true
		typeTab[s] = tdesc(t)
	}
	return s
}

func tdesc(t types.Type) J {
	switch t := t.(type) {
	case *types.Basic:
		return J{"k": "basic", "name": t.Name()}
	case *types.Named:
		d := J{"k": "named", "name": types.TypeString(t, qual), "under": tstr(t.Underlying())}
		if t.Obj() != nil && t.Obj().Pkg() != nil {
			d["pkg"] = t.Obj().Pkg().Path()
		}
		return d
	case *types.Pointer:
		return J{"k": "ptr", "elem": tstr(t.Elem())}
	case *types.Slice:
		return J{"k": "slice", "elem": tstr(t.Elem())}
	case *types.Array:
		return J{"k": "array", "elem": tstr(t.Elem()), "len": t.Len()}
	case *types.Map:
		return J{"k": "map", "key": tstr(t.Key()), "elem": tstr(t.Elem())}
	case *types.Chan:
		return J{"k": "chan", "elem": tstr(t.Elem()), "dir": int(t.Dir())}
	case *types.Struct:
		fs := []J{}
		for i := 0; i < t.NumFields(); i++ {
			f := t.Field(i)
			fs = append(fs, J{"name": f.Name(), "t": tstr(f.Type()), "emb": f.Embedded(), "tag": t.Tag(i)})
		}
		return J{"k": "struct", "fields": fs}
	case *types.Tuple:
		ts := []string{}
		for i := 0; i < t.Len(); i++ {
			ts = append(ts, tstr(t.At(i).Type()))
		}
		return J{"k": "tuple", "elems": ts}
	case *types.Signature:
		ps, rs := []string{}, []string{}
		for i := 0; i < t.Params().Len(); i++ {
			ps = append(ps, tstr(t.Params().At(i).Type()))
		}
		for i := 0; i < t.Results().Len(); i++ {
			rs = append(rs, tstr(t.Results().At(i).Type()))
		}
		return J{"k": "sig", "params": ps, "results": rs, "variadic": t.Variadic()}
	case *types.Interface:
		ms := []string{}
		for i := 0; i < t.NumMethods(); i++ {
			ms = append(ms, t.Method(i).Name())
		}
		return J{"k": "iface", "methods": ms}
	case *types.TypeParam:
		return J{"k": "typeparam", "name": t.String()}
	}
	return J{"k": "other", "s": t.String()}
}

func hasPrefixAny(s string, ps []string) bool {
	for _, p := range ps {
		if strings.HasSuffix(p, "/") || strings.HasSuffix(p, ".") {
			if strings.HasPrefix(s, p) {
				return true
			}
		} else if s == p {
			return true
		}
	}
	return false
}

func fnPkgPath(f *ssa.Function) string {
	if f.Pkg != nil {
		return f.Pkg.Pkg.Path()
	}
	if o := f.Origin(); o != nil && o.Pkg != nil {
		return o.Pkg.Pkg.Path()
	}
	if f.Parent() != nil {
		return fnPkgPath(f.Parent())
	}
	// synthetic wrappers/thunks: take the package of the receiver's named type / object
	if f.Object() != nil && f.Object().Pkg() != nil {
		return f.Object().Pkg().Path()
	}
	if f.Signature.Recv() != nil {
		t := f.Signature.Recv().Type()
		if p, ok := types.Unalias(t).(*types.Pointer); ok {
			t = p.Elem()
		}
		if n, ok := types.Unalias(t).(*types.Named); ok && n.Obj().Pkg() != nil {
			return n.Obj().Pkg().Path()
		}
	}
	return ""
}

func shouldFollow(f *ssa.Function) bool {
	full := f.String()
	if hasPrefixAny(full, nofollow) {
		return false
	}
	if hasPrefixAny(full, follow) {
		return true
	}
	pp := fnPkgPath(f)
	if pp == "" {
		// wrappers for unnamed receivers etc: follow if synthetic and small
		return f.Synthetic != ""
	}
	if hasPrefixAny(pp, nofollow) {
		return false
	}
	return hasPrefixAny(pp, follow)
}

func enqueue(f *ssa.Function) {
	if f == nil || seenFn[f] {
		return
	}
	if f.TypeParams().Len() > 0 && len(f.TypeArgs()) == 0 {
		return // uninstantiated generic
	}
	if !shouldFollow(f) {
		return
	}
	seenFn[f] = true
	work = append(work, f)
}

func ensureBuilt(f *ssa.Function) {
	p := f.Pkg
	if p == nil && f.Origin() != nil {
		p = f.Origin().Pkg
	}
	if p == nil && f.Parent() != nil {
		ensureBuilt(f.Parent())
		return
	}
	if p != nil && !builtPkg[p] {
		builtPkg[p] = true
		p.Build()
	}
}

func methodSet(t types.Type) {
	key := tstr(t)
	if msetDone[key] {
		return
	}
	msetDone[key] = true
	if types.IsInterface(t) {
		return
	}
	ms := prog.MethodSets.MethodSet(t)
	if ms.Len() == 0 {
		return
	}
	m := map[string]string{}
	for i := 0; i < ms.Len(); i++ {
		sel := ms.At(i)
		fn := prog.MethodValue(sel)
		if fn == nil {
			continue
		}
		m[sel.Obj().Name()] = fn.String()
		enqueue(fn)
	}
	msets[key] = m
}

func val(v ssa.Value) any {
	switch v := v.(type) {
	case nil:
		return nil
	case *ssa.Const:
		t := tstr(v.Type())
		if v.Value == nil {
			return J{"c": nil, "t": t}
		}
		switch v.Value.Kind() {
		case constant.Bool:
			return J{"c": constant.BoolVal(v.Value), "t": t}
		case constant.String:
			return J{"c": constant.StringVal(v.Value), "t": t, "s": 1}
		case constant.Int:
			return J{"c": v.Value.ExactString(), "t": t, "i": 1}
		case constant.Float:
			f, _ := constant.Float64Val(v.Value)
			return J{"c": fmt.Sprintf("%v", f), "t": t, "f": 1, "x": v.Value.ExactString()}
		default:
			return J{"c": v.Value.ExactString(), "t": t, "o": 1}
		}
	case *ssa.Parameter:
		for i, p := range v.Parent().Params {
			if p == v {
				return fmt.Sprintf("p:%d", i)
			}
		}
	case *ssa.FreeVar:
		for i, p := range v.Parent().FreeVars {
			if p == v {
				return fmt.Sprintf("f:%d", i)
			}
		}
	case *ssa.Global:
		return J{"g": v.String(), "t": tstr(v.Type())}
	case *ssa.Function:
		enqueue(v)
		return J{"fn": v.String(), "t": tstr(v.Type())}
	case *ssa.Builtin:
		return J{"b": v.Name()}
	}
	return "r:" + v.Name()
}

func vals(vs []ssa.Value) []any {
	r := []any{}
	for _, v := range vs {
		r = append(r, val(v))
	}
	return r
}

func common(c *ssa.CallCommon) J {
	j := J{"args": vals(c.Args)}
	if c.IsInvoke() {
		j["invoke"] = c.Method.Name()
		j["v"] = val(c.Value)
		j["it"] = tstr(c.Value.Type())
	} else {
		j["v"] = val(c.Value)
		if f := c.StaticCallee(); f != nil {
			j["static"] = f.String()
		}
	}
	return j
}

func instr(in ssa.Instruction) J {
	j := J{}
	if v, ok := in.(ssa.Value); ok {
		j["r"] = v.Name()
		j["t"] = tstr(v.Type())
	}
	switch in := in.(type) {
	case *ssa.Alloc:
		j["op"] = "Alloc"
		j["heap"] = in.Heap
		j["et"] = tstr(in.Type().(*types.Pointer).Elem())
		j["cm"] = in.Comment
	case *ssa.BinOp:
		j["op"] = "BinOp"
		j["o"] = in.Op.String()
		j["x"] = val(in.X)
		j["y"] = val(in.Y)
		j["xt"] = tstr(in.X.Type())
	case *ssa.UnOp:
		j["op"] = "UnOp"
		j["o"] = in.Op.String()
		j["x"] = val(in.X)
		j["commaok"] = in.CommaOk
		j["xt"] = tstr(in.X.Type())
	case *ssa.Call:
		j["op"] = "Call"
		j["call"] = common(&in.Call)
	case *ssa.Defer:
		j["op"] = "Defer"
		j["call"] = common(&in.Call)
	case *ssa.Go:
		j["op"] = "Go"
		j["call"] = common(&in.Call)
	case *ssa.ChangeInterface:
		j["op"] = "ChangeInterface"
		j["x"] = val(in.X)
	case *ssa.ChangeType:
		j["op"] = "ChangeType"
		j["x"] = val(in.X)
	case *ssa.Convert:
		j["op"] = "Convert"
		j["x"] = val(in.X)
		j["xt"] = tstr(in.X.Type())
	case *ssa.MultiConvert:
		j["op"] = "Convert"
		j["x"] = val(in.X)
		j["xt"] = tstr(in.X.Type())
	case *ssa.DebugRef:
		return nil
	case *ssa.Extract:
		j["op"] = "Extract"
		j["x"] = val(in.Tuple)
		j["i"] = in.Index
	case *ssa.Field:
		j["op"] = "Field"
		j["x"] = val(in.X)
		j["i"] = in.Field
	case *ssa.FieldAddr:
		j["op"] = "FieldAddr"
		j["x"] = val(in.X)
		j["i"] = in.Field
	case *ssa.If:
		j["op"] = "If"
		j["x"] = val(in.Cond)
	case *ssa.Index:
		j["op"] = "Index"
		j["x"] = val(in.X)
		j["y"] = val(in.Index)
		j["xt"] = tstr(in.X.Type())
	case *ssa.IndexAddr:
		j["op"] = "IndexAddr"
		j["x"] = val(in.X)
		j["y"] = val(in.Index)
		j["xt"] = tstr(in.X.Type())
	case *ssa.Jump:
		j["op"] = "Jump"
	case *ssa.Lookup:
		j["op"] = "Lookup"
		j["x"] = val(in.X)
		j["y"] = val(in.Index)
		j["commaok"] = in.CommaOk
		j["xt"] = tstr(in.X.Type())
	case *ssa.MakeChan:
		j["op"] = "MakeChan"
		j["x"] = val(in.Size)
	case *ssa.MakeClosure:
		j["op"] = "MakeClosure"
		j["fn"] = val(in.Fn)
		j["b"] = vals(in.Bindings)
	case *ssa.MakeInterface:
		j["op"] = "MakeInterface"
		j["x"] = val(in.X)
		j["xt"] = tstr(in.X.Type())
		methodSet(in.X.Type())
	case *ssa.MakeMap:
		j["op"] = "MakeMap"
	case *ssa.MakeSlice:
		j["op"] = "MakeSlice"
		j["len"] = val(in.Len)
		j["cap"] = val(in.Cap)
	case *ssa.MapUpdate:
		j["op"] = "MapUpdate"
		j["m"] = val(in.Map)
		j["k"] = val(in.Key)
		j["v"] = val(in.Value)
	case *ssa.Next:
		j["op"] = "Next"
		j["x"] = val(in.Iter)
		j["isstr"] = in.IsString
	case *ssa.Panic:
		j["op"] = "Panic"
		j["x"] = val(in.X)
	case *ssa.Phi:
		j["op"] = "Phi"
		j["edges"] = vals(in.Edges)
		j["cm"] = in.Comment
	case *ssa.Range:
		j["op"] = "Range"
		j["x"] = val(in.X)
		j["xt"] = tstr(in.X.Type())
	case *ssa.Return:
		j["op"] = "Return"
		j["res"] = vals(in.Results)
	case *ssa.RunDefers:
		j["op"] = "RunDefers"
	case *ssa.Select:
		j["op"] = "Select"
		sts := []J{}
		for _, s := range in.States {
			sts = append(sts, J{"dir": int(s.Dir), "chan": val(s.Chan), "send": val(s.Send)})
		}
		j["states"] = sts
		j["blocking"] = in.Blocking
	case *ssa.Send:
		j["op"] = "Send"
		j["chan"] = val(in.Chan)
		j["x"] = val(in.X)
	case *ssa.Slice:
		j["op"] = "Slice"
		j["x"] = val(in.X)
		j["lo"] = val(in.Low)
		j["hi"] = val(in.High)
		j["max"] = val(in.Max)
		j["xt"] = tstr(in.X.Type())
	case *ssa.SliceToArrayPointer:
		j["op"] = "SliceToArrayPointer"
		j["x"] = val(in.X)
	case *ssa.Store:
		j["op"] = "Store"
		j["addr"] = val(in.Addr)
		j["v"] = val(in.Val)
	case *ssa.TypeAssert:
		j["op"] = "TypeAssert"
		j["x"] = val(in.X)
		j["at"] = tstr(in.AssertedType)
		j["commaok"] = in.CommaOk
		if !types.IsInterface(in.AssertedType) {
			methodSet(in.AssertedType)
		}
	default:
		j["op"] = fmt.Sprintf("?%T", in)
	}
	if p := in.Pos(); p.IsValid() {
		pos := prog.Fset.Position(p)
		j["ln"] = pos.Line
	}
	return j
}

func fnJSON(f *ssa.Function) J {
	j := J{"name": f.String(), "pkg": fnPkgPath(f), "sig": tstr(f.Signature), "synthetic": f.Synthetic}
	ps := []J{}
	for _, p := range f.Params {
		ps = append(ps, J{"name": p.Name(), "t": tstr(p.Type())})
	}
	j["params"] = ps
	fv := []J{}
	for _, p := range f.FreeVars {
		fv = append(fv, J{"name": p.Name(), "t": tstr(p.Type())})
	}
	j["freevars"] = fv
	if f.Pos().IsValid() {
		pos := prog.Fset.Position(f.Pos())
		j["file"] = pos.Filename
		j["line"] = pos.Line
	}
	if f.Blocks == nil {
		j["external"] = true
		return j
	}
	bs := []J{}
	for _, b := range f.Blocks {
		ins := []J{}
		for _, in := range b.Instrs {
			if ij := instr(in); ij != nil {
				ins = append(ins, ij)
			}
		}
		succs, preds := []int{}, []int{}
		for _, s := range b.Succs {
			succs = append(succs, s.Index)
		}
		for _, s := range b.Preds {
			preds = append(preds, s.Index)
		}
		bs = append(bs, J{"i": b.Index, "ins": ins, "succs": succs, "preds": preds, "cm": b.Comment})
	}
	j["blocks"] = bs
	if f.Recover != nil {
		j["recover"] = f.Recover.Index
	}
	// named results (for recover semantics)
	for _, af := range f.AnonFuncs {
		enqueue(af)
	}
	return j
}

type strs []string

func (s *strs) String() string     { return strings.Join(*s, ",") }
func (s *strs) Set(v string) error { *s = append(*s, strings.Split(v, ",")...); return nil }

func main() {
	dir := flag.String("dir", "/repo", "module dir")
	tags := flag.String("tags", "verif", "build tags")
	out := flag.String("out", "ssa.json", "output")
	overlayF := flag.String("overlay", "", "json file: {virtual path: real path}")
	var roots, extra strs
	flag.Var(&roots, "roots", "root package patterns")
	flag.Var((*strs)(&follow), "follow", "package path prefixes (ending in /) or exact paths / function-name prefixes to follow into")
	flag.Var((*strs)(&nofollow), "nofollow", "package path prefixes / function names never followed")
	flag.Var(&extra, "extra", "extra root function full names (as printed by ssa)")
	flag.Parse()

	cfg := &packages.Config{
		Mode: packages.NeedName | packages.NeedFiles | packages.NeedCompiledGoFiles | packages.NeedImports |
			packages.NeedDeps | packages.NeedTypes | packages.NeedTypesSizes | packages.NeedSyntax | packages.NeedTypesInfo | packages.NeedModule,
		Dir:        *dir,
		BuildFlags: []string{"-tags=" + *tags},
		Tests:      false,
	}
	if *overlayF != "" {
		b, err := os.ReadFile(*overlayF)
		if err != nil {
			panic(err)
		}
		m := map[string]string{}
		if err := json.Unmarshal(b, &m); err != nil {
			panic(err)
		}
		cfg.Overlay = map[string][]byte{}
		for v, r := range m {
			c, err := os.ReadFile(r)
			if err != nil {
				panic(err)
			}
			cfg.Overlay[v] = c
		}
	}
	initial, err := packages.Load(cfg, roots...)
	if err != nil {
		fmt.Fprintln(os.Stderr, "load:", err)
		os.Exit(2)
	}
	if packages.PrintErrors(initial) > 0 {
		os.Exit(2)
	}
	var pkgs []*ssa.Package
	prog, pkgs = ssautil.AllPackages(initial, ssa.InstantiateGenerics)
	_ = token.NoPos

	consts := map[string]any{}
	globals := map[string]string{}
	rootSet := map[string]bool{}
	for _, p := range pkgs {
		if p == nil {
			continue
		}
		rootSet[p.Pkg.Path()] = true
	}
	// roots: build and enqueue everything in them
	byPath := map[string]*ssa.Package{}
	for _, p := range prog.AllPackages() {
		byPath[p.Pkg.Path()] = p
	}
	for _, p := range pkgs {
		if p == nil {
			continue
		}
		builtPkg[p] = true
		p.Build()
	}
	dumpMembers := func(p *ssa.Package, enq bool) {
		for name, m := range p.Members {
			switch m := m.(type) {
			case *ssa.NamedConst:
				if m.Value != nil && m.Value.Value != nil {
					switch m.Value.Value.Kind() {
					case constant.String:
						consts[p.Pkg.Path()+"."+name] = constant.StringVal(m.Value.Value)
					case constant.Int, constant.Float:
						consts[p.Pkg.Path()+"."+name] = m.Value.Value.ExactString()
					case constant.Bool:
						consts[p.Pkg.Path()+"."+name] = constant.BoolVal(m.Value.Value)
					}
				}
			case *ssa.Global:
				globals[m.String()] = tstr(m.Type().(*types.Pointer).Elem())
			case *ssa.Function:
				if enq {
					enqueue(m)
				}
			case *ssa.Type:
				if enq {
					methodSet(m.Type())
					methodSet(types.NewPointer(m.Type()))
				}
			}
		}
	}
	for _, p := range pkgs {
		if p != nil {
			dumpMembers(p, true)
		}
	}
	// extra named roots
	allFns := map[string]*ssa.Function{}
	if len(extra) > 0 {
		for _, e := range extra {
			// "pkgpath.Func" or "(pkgpath.T).M" / "(*pkgpath.T).M"
			var pp, rest string
			s := e
			isMeth := strings.HasPrefix(s, "(")
			if isMeth {
				s = strings.TrimPrefix(s, "(")
				s = strings.TrimPrefix(s, "*")
			}
			i := strings.LastIndex(s, "/")
			k := strings.Index(s[i+1:], ".")
			pp, rest = s[:i+1+k], s[i+1+k+1:]
			p := byPath[pp]
			if p == nil {
				fmt.Fprintln(os.Stderr, "extra: no package", pp, "for", e)
				continue
			}
			if !builtPkg[p] {
				builtPkg[p] = true
				p.Build()
			}
			if !isMeth {
				if f := p.Func(rest); f != nil {
					follow = append(follow, f.String())
					enqueue(f)
					allFns[e] = f
				} else {
					fmt.Fprintln(os.Stderr, "extra: no func", e)
				}
			} else {
				j := strings.Index(rest, ")")
				tn, mn := rest[:j], rest[j+2:]
				tm := p.Type(tn)
				if tm == nil {
					fmt.Fprintln(os.Stderr, "extra: no type", e)
					continue
				}
				var recv types.Type = tm.Type()
				if strings.HasPrefix(e, "(*") {
					recv = types.NewPointer(recv)
				}
				sel := prog.MethodSets.MethodSet(recv).Lookup(p.Pkg, mn)
				if sel == nil {
					fmt.Fprintln(os.Stderr, "extra: no method", e)
					continue
				}
				f := prog.MethodValue(sel)
				follow = append(follow, f.String())
				enqueue(f)
			}
		}
	}

	funcs := map[string]J{}
	for len(work) > 0 {
		f := work[len(work)-1]
		work = work[:len(work)-1]
		ensureBuilt(f)
		funcs[f.String()] = fnJSON(f)
	}
	// const tables of every followed package that was built
	for p := range builtPkg {
		if !rootSet[p.Pkg.Path()] {
			dumpMembers(p, false)
		}
	}
	names := make([]string, 0, len(funcs))
	for n := range funcs {
		names = append(names, n)
	}
	sort.Strings(names)
	res := J{"funcs": funcs, "types": typeTab, "msets": msets, "consts": consts, "globals": globals}
	fo, err := os.Create(*out)
	if err != nil {
		panic(err)
	}
	enc := json.NewEncoder(fo)
	if err := enc.Encode(res); err != nil {
		panic(err)
	}
	fo.Close()
	fmt.Fprintf(os.Stderr, "ssaexport: %d functions, %d types, %d method sets\n", len(funcs), len(typeTab), len(msets))
}
